------------------------------- MODULE Blocks -------------------------------
(* C16: the step machine  opcode list --PopTargets--> --Split--> --Rewrite312--> --Connect-->  *)
(* --Order*--> ordered block graph,  i.e. blocks.add_pop_block_targets, _split_bytecode,       *)
(* the two 3.12 rewrites, the connect loop of compute_order and cfg_utils.order_nodes as an     *)
(* explicit loop over (queue, order, seen).  The functions the steps apply live in BlocksOps.   *)
(*                                                                                              *)
(* Three families of initial states (constant Mode):                                            *)
(*   "streams" : every abstract instruction stream of length <= MaxLen over the kinds in Kinds  *)
(*               (built instruction by instruction; the last instruction never falls through,  *)
(*               as in any CPython code object)                                                 *)
(*   "async"   : the instruction shapes CPython 3.12 emits for await / yield from / async for   *)
(*               (SEND .. END_SEND, GET_ANEXT, JUMP_BACKWARD with an END_ASYNC_FOR, cold         *)
(*               CLEANUP_THROW blocks), with and without `continue`                             *)
(*   "graphs"  : every digraph on <= MaxNodes nodes, handed to the Order steps directly          *)
(* Property: a run that ends in "Done" ends in a WellFormed graph (WFInv); every state of the    *)
(* Order loop satisfies the loop invariants (OrderLoopInv).                                      *)
EXTENDS BlocksOps, Json

CONSTANTS Mode, MinLen, MaxLen, Kinds, MaxNodes, SelfLoops, AllowContinue, Export,
          Atomic   \* TRUE: one step from the generated stream to the final graph (deep bounds)

VARIABLES pc,      \* "Gen" "PopTargets" "Split" "Rewrite" "Connect" "Graph" "Order" "Done" "Crash"
          len,     \* chosen stream length
          ins,     \* instruction list (tuples of BlocksOps)
          ins0,    \* the list as generated (what the real code is given in a replay)
          t0,      \* position -> target when compute_order starts
          blocks,  \* current list of blocks
          E,       \* Block.outgoing as pairs of block numbers
          ids,     \* Block.id
          pm,      \* predecessor_map
          ost,     \* state of the order_nodes loop: [q, pr, order, seen]
          order,   \* result
          aux,     \* [elided, retgt] as specified by the rewrites
          g        \* Graph(ins, t0), evaluated once when Split starts; later steps reveal its fields

vars == <<pc, len, ins, ins0, t0, blocks, E, ids, pm, ost, order, aux, g>>

(* ------------------------------ abstract instructions ------------------------------------- *)
HasTarget(k) == k \in {"CJ", "CJX", "J", "SETUP"}
EndsStream(k) == k \in {"J", "RET", "RAISE"}
KFl(k) == CASE k = "P" -> 0
            [] k = "CJ" -> fDoesJump + fKnown            \* POP_JUMP_IF_*, FOR_ITER
            [] k = "CJX" -> fDoesJump + fKnown + fPushExc  \* a conditional jump INTO an exception range
            [] k = "J" -> fNoNext + fDoesJump + fKnown   \* JUMP_FORWARD / JUMP_BACKWARD
            [] k = "RET" -> fNoNext                      \* RETURN_CONST, RERAISE
            [] k = "MAY" -> fDoesJump                    \* IMPORT_NAME, END_ASYNC_FOR: "may jump"
            [] k = "SETUP" -> fKnown + fPushes + fStore  \* SETUP_EXCEPT_311
            [] k = "POP" -> fPops                        \* POP_BLOCK
            [] k = "RAISE" -> fNoNext + fDoesJump        \* RAISE_VARARGS
            [] k = "SEND" -> fDoesJump + fKnown
            [] k = "JB" -> fNoNext + fDoesJump + fKnown
            [] k = "JBNI" -> fNoNext + fDoesJump + fKnown
            [] k = "EAF" -> fDoesJump
            [] OTHER -> 0                                \* ENDSEND GETANEXT CTHROW
KCls(k) == CASE k = "SETUP" -> cSETUP_EXCEPT [] k = "POP" -> cPOP_BLOCK [] k = "RAISE" -> cRAISE_VARARGS
             [] k = "SEND" -> cSEND [] k = "ENDSEND" -> cEND_SEND [] k = "GETANEXT" -> cGET_ANEXT
             [] k = "CTHROW" -> cCLEANUP_THROW [] k = "JB" -> cJUMP_BACKWARD [] k = "JBNI" -> cJBNI
             [] k = "EAF" -> cEND_ASYNC_FOR [] OTHER -> cOther

Mk(p, L, k, t, ea) ==
  <<p - 1, IF p < L THEN p + 1 ELSE 0, p - 1, t,
    IF Bit(KFl(k), fKnown) THEN t - 1 ELSE 0, 0, ea, KFl(k), KCls(k)>>

(* a shape = sequence of <<kind, label-of-target or "", own label or "", label of eaft or "">>  *)
Resolve(sh) ==
  LET L == Len(sh)
      at(lbl) == IF lbl = "" THEN 0 ELSE CHOOSE p \in 1 .. L : sh[p][3] = lbl IN
  [p \in 1 .. L |-> Mk(p, L, sh[p][1], at(sh[p][2]), at(sh[p][4]))]

I(k) == <<k, "", "", "">>
SendPart(s, e, ct) ==       \* LOAD_CONST; SEND e; YIELD_VALUE; RESUME; JUMP_BACKWARD_NO_INTERRUPT s; [CLEANUP_THROW]; END_SEND
  <<I("P"), <<"SEND", e, s, "">>, I("P"), <<"JBNI", s, "", "">>>>
    \o (IF ct THEN <<I("CTHROW")>> ELSE <<>>) \o << <<"ENDSEND", "", e, "">> >>
Cold(e) == <<I("CTHROW"), <<"JB", e, "", "">>>>
Body(b) ==
  CASE b = 0 -> <<>>
    [] b = 1 -> <<I("P")>>
    [] b = 2 -> << <<"CJ", "jb", "", "">>, I("P")>>                          \* if c: stmt
    [] b = 3 -> << <<"CJ", "x", "", "">>, <<"JB", "an", "", "eaf">>, <<"P", "", "x", "">> >>   \* if c: continue
    [] b = 4 -> << <<"CJ", "x", "", "">>, <<"JB", "an", "", "eaf">>,
                   <<"CJ", "y", "x", "">>, <<"JB", "an", "", "eaf">>, <<"P", "", "y", "">> >>    \* two continues
AsyncFor(b, ct, cold) ==
  <<I("P"), <<"GETANEXT", "", "an", "">>>> \o SendPart("s", "e", ct) \o <<I("P")>> \o Body(b)
    \o << <<"JB", "an", "jb", "eaf">> >> \o (IF cold THEN Cold("e") ELSE <<>>)
    \o << <<"EAF", "", "eaf", "">>, I("RET")>>
Await(ct, cold) ==
  <<I("P")>> \o SendPart("s", "e", ct) \o <<I("RET")>> \o (IF cold THEN Cold("e") ELSE <<>>)
Nested(ct) ==      \* async for .. : async for .. : stmt
  <<I("P"), <<"GETANEXT", "", "an", "">>>> \o SendPart("s", "e", ct) \o <<I("P")>>
    \o << <<"GETANEXT", "", "an2", "">> >> \o SendPart("s2", "e2", ct) \o <<I("P")>>
    \o << <<"JB", "an2", "", "eaf2">>, <<"EAF", "", "eaf2", "">>, <<"JB", "an", "", "eaf">>,
          <<"EAF", "", "eaf", "">>, I("RET")>>
TryAwait ==        \* try: await x  except: pass   (SETUP/POP around a SEND region)
  << <<"SETUP", "h", "", "">> >> \o SendPart("s", "e", FALSE) \o <<I("POP"), I("RET"), <<"P", "", "h", "">>, I("RET")>>

AsyncShapes ==
  {Resolve(AsyncFor(b, ct, cold)) : b \in (IF AllowContinue THEN 0 .. 4 ELSE 0 .. 2), ct \in BOOLEAN, cold \in BOOLEAN}
  \cup {Resolve(Await(ct, cold)) : ct \in BOOLEAN, cold \in BOOLEAN}
  \cup {Resolve(Nested(ct)) : ct \in BOOLEAN}
  \cup {Resolve(TryAwait)}

(* ------------------------------------ initial states -------------------------------------- *)
NoOst == [q |-> {}, pr |-> <<>>, order |-> <<>>, seen |-> {}]
PairsOf(n) == {e \in (1 .. n) \X (1 .. n) : SelfLoops \/ e[1] # e[2]}

Init ==
  /\ blocks = <<>> /\ order = <<>> /\ aux = [elided |-> {}, retgt |-> {}] /\ t0 = <<>> /\ g = <<>>
  /\ \/ /\ Mode = "streams"
        /\ pc = "Gen" /\ len \in MinLen .. MaxLen /\ ins = <<>> /\ ins0 = <<>>
        /\ E = {} /\ ids = <<>> /\ pm = <<>> /\ ost = NoOst
     \/ /\ Mode = "async"
        /\ pc = "PopTargets" /\ ins \in AsyncShapes /\ len = Len(ins) /\ ins0 = ins
        /\ E = {} /\ ids = <<>> /\ pm = <<>> /\ ost = NoOst
     \/ /\ Mode = "graphs"
        /\ pc = "Graph" /\ ins = <<>> /\ ins0 = <<>>
        /\ len \in MinLen .. MaxNodes
        /\ E \in SUBSET PairsOf(len)
        /\ ids = Iota(len)
        /\ pm = <<>> /\ ost = NoOst

(* --------------------------------------- the steps ---------------------------------------- *)
Gen ==
  /\ pc = "Gen"
  /\ \E k \in Kinds :
       /\ (Len(ins) + 1 = len => EndsStream(k))
       /\ \E t \in (IF HasTarget(k) THEN 1 .. len ELSE {0}) :
            ins' = Append(ins, Mk(Len(ins) + 1, len, k, t, 0))
  /\ ins0' = ins'
  /\ pc' = IF Len(ins) + 1 = len THEN "PopTargets" ELSE "Gen"
  /\ UNCHANGED <<len, t0, blocks, E, ids, pm, ost, order, aux, g>>

PopTargetsStep ==
  /\ pc = "PopTargets" /\ ~Atomic
  /\ LET r == PopTargets(ins) IN
       IF r.crash THEN pc' = "Crash" /\ UNCHANGED <<ins, t0>>
       ELSE /\ ins' = [p \in DOMAIN ins |-> [ins[p] EXCEPT ![6] = r.bt[p]]]
            /\ t0' = [p \in DOMAIN ins |-> Tgt(ins[p])]
            /\ pc' = "Split"
  /\ UNCHANGED <<len, ins0, blocks, E, ids, pm, ost, order, aux, g>>

Split ==
  /\ pc = "Split"
  /\ g' = Graph(ins, t0)
  /\ IF g'.split = <<>> THEN pc' = "Crash" /\ UNCHANGED blocks      \* SEND surgery / merge lookup raised
     ELSE blocks' = g'.split /\ pc' = "Rewrite"
  /\ UNCHANGED <<len, ins, ins0, t0, E, ids, pm, ost, order, aux>>

Rewrite ==       \* _remove_jump_back_block ; _remove_jmp_to_get_anext_and_merge (3.12)
  /\ pc = "Rewrite"
  /\ blocks' = g.blocks
  /\ ids' = g.ids
  /\ ins' = [p \in DOMAIN ins |-> [ins[p] EXCEPT ![4] = g.tgt[p]]]
  /\ aux' = [elided |-> g.removed \cup g.popped, retgt |-> {p \in DOMAIN ins : g.tgt[p] # t0[p]}]
  /\ pc' = "Connect"
  /\ UNCHANGED <<len, ins0, t0, E, pm, ost, order, g>>

Connect ==
  /\ pc = "Connect"
  /\ IF g.crash THEN pc' = "Crash" /\ UNCHANGED <<E, pm, ost>>      \* first_op_to_block[...] KeyError
     ELSE /\ E' = g.edges
          /\ pm' = PredMap(Len(blocks), g.edges)
          /\ ost' = OrderInit(pm')
          /\ pc' = "Order"
  /\ UNCHANGED <<len, ins, ins0, t0, blocks, ids, order, aux, g>>

StartOrder ==     \* "graphs" family: order_nodes called on an arbitrary digraph
  /\ pc = "Graph"
  /\ IF Atomic
       THEN /\ order' = OrderNodes(len, E, ids)
            /\ pc' = IF OrderAssert(len, E, order') THEN "Done" ELSE "Crash"
            /\ UNCHANGED <<pm, ost>>
       ELSE /\ pm' = PredMap(len, E)
            /\ ost' = OrderInit(pm')
            /\ pc' = "Order"
            /\ UNCHANGED order
  /\ UNCHANGED <<len, ins, ins0, t0, blocks, E, ids, aux, g>>

OrderLoop ==
  /\ pc = "Order" /\ ost.q # {}
  /\ ost' = OrderStep(ost, E, pm, ids)
  /\ UNCHANGED <<pc, len, ins, ins0, t0, blocks, E, ids, pm, order, aux, g>>

Finish ==
  /\ pc = "Order" /\ ost.q = {}
  /\ order' = ost.order
  /\ pc' = IF OrderAssert(Len(ids), E, ost.order) THEN "Done" ELSE "Crash"
  /\ UNCHANGED <<len, ins, ins0, t0, blocks, E, ids, pm, ost, aux, g>>

(* the same pipeline as one step (used for the deepest stream bound; same functions) *)
RunAll(xs) ==
  LET r == PopTargets(xs) IN
  IF r.crash THEN [stage |-> "poptargets"]
  ELSE LET insB == [p \in DOMAIN xs |-> [xs[p] EXCEPT ![6] = r.bt[p]]]
           tt == [p \in DOMAIN xs |-> Tgt(xs[p])]
           gg == Graph(insB, tt)
           nbb == Len(gg.blocks)
           ord == IF gg.crash THEN <<>> ELSE OrderNodes(nbb, gg.edges, gg.ids)
       IN [stage |-> IF gg.crash THEN "graph" ELSE IF ~OrderAssert(nbb, gg.edges, ord) THEN "assert" ELSE "done",
           ins |-> [p \in DOMAIN xs |-> [insB[p] EXCEPT ![4] = gg.tgt[p]]],
           t0 |-> tt, gg |-> gg, order |-> ord,
           aux |-> [elided |-> gg.removed \cup gg.popped, retgt |-> {p \in DOMAIN xs : gg.tgt[p] # tt[p]}]]

Pipeline ==
  /\ pc = "PopTargets" /\ Atomic
  /\ g' = RunAll(ins)
  /\ IF g'.stage = "poptargets" THEN pc' = "Crash" /\ UNCHANGED <<ins, t0, blocks, E, ids, order, aux>>
     ELSE /\ t0' = g'.t0 /\ ins' = g'.ins /\ blocks' = g'.gg.blocks /\ ids' = g'.gg.ids
          /\ E' = g'.gg.edges /\ order' = g'.order /\ aux' = g'.aux
          /\ pc' = IF g'.stage = "done" THEN "Done" ELSE "Crash"
  /\ UNCHANGED <<len, ins0, pm, ost>>

Next == Gen \/ PopTargetsStep \/ Pipeline \/ Split \/ Rewrite \/ Connect \/ StartOrder \/ OrderLoop \/ Finish
Spec == Init /\ [][Next]_vars

(* ------------------------------------- the properties ------------------------------------- *)
Fails == IF Mode = "graphs" THEN OrderFails(len, E, order)
         ELSE WFFails(ins, blocks, E, order, aux.elided, aux.retgt)

(* The one documented deviation of the code from C16 (known finding                              *)
(* C16:once:anext-merge-duplicates-end-async-for-block): _remove_jmp_to_get_anext_and_merge      *)
(* appends the block of an END_ASYNC_FOR to EVERY block that ends in a JUMP_BACKWARD of that      *)
(* loop, so with `continue` in an `async for` body (two such jumps) these instructions are in     *)
(* two blocks.  The model reproduces it; every other stream must be well formed, and a stream     *)
(* with a shared END_ASYNC_FOR fails exactly the clause "once".                                   *)
SharedEaft(xs) == \E p, q \in DOMAIN xs : p # q /\ Eaft(xs[p]) > 0 /\ Eaft(xs[p]) = Eaft(xs[q])
WFInv == pc = "Done" => Fails = (IF Mode # "graphs" /\ SharedEaft(ins0) THEN {"once"} ELSE {})
(* expected to be VIOLATED when AllowContinue = TRUE: the design-level witness of that finding *)
WFStrict == pc = "Done" => Fails = {}

(* the async shapes are real CPython shapes: the pipeline must not raise on them *)
NoCrashOnShapes == Mode = "async" => pc # "Crash"
(* order_nodes' closing assertion never fires *)
AssertHolds == (pc = "Crash" /\ Mode = "graphs") => FALSE
(* on arbitrary streams the only exception the pipeline can raise is add_pop_block_targets'      *)
(* own assertion (POP_BLOCK without block / jump into a range with no SETUP): Split, the          *)
(* rewrites, first_op_to_block lookups and order_nodes never raise                                *)
CrashOnlyInPopTargets == (pc = "Crash" /\ Mode = "streams") => (blocks = <<>> /\ (g = <<>> \/ (Atomic /\ g.stage = "poptargets")))

(* loop invariants of order_nodes *)
OrderLoopInv ==
  pc = "Order" =>
    LET o == ost.order IN
    /\ ost.seen = SetOf(o)
    /\ Cardinality(ost.seen) = Len(o)                                  \* no duplicates
    /\ (o # <<>> => o[1] = 1)
    /\ \A k \in 2 .. Len(o) : \E j \in 1 .. (k - 1) : <<o[j], o[k]>> \in E
    /\ \A x \in ost.q : 1 \in pm[x]                                    \* only live nodes are queued
    /\ \A x \in ost.q \ ost.seen :
         /\ ost.pr[x] = pm[x] \ ost.seen                               \* remaining-predecessor counts are exact
         /\ (x # 1 => \E a \in ost.seen : <<a, x>> \in E)              \* queued = frontier of the processed set
    /\ \A a \in ost.seen : Succ(E, a) \subseteq ost.seen \cup ost.q    \* nothing reachable is forgotten

(* --------------------------------------- export -------------------------------------------- *)
ExportInv ==
  (Export /\ pc \in {"Done", "Crash"}) =>
     PrintT(<<"CASE", ToJson(IF Mode = "graphs"
                               THEN [k |-> "graph", nb |-> len, edges |-> E, order |-> order]
                               ELSE [k |-> "stream", ins |-> ins0, crash |-> pc = "Crash", fails |-> IF pc = "Done" THEN Fails ELSE {}])>>)
=============================================================================

------------------------------ MODULE BuildPlan ------------------------------
(* C19 - the whole-project build plan orders every analysis after the stubs it reads.          *)
(*                                                                                            *)
(* One behaviour = one project:                                                                *)
(*   phase "build"  the import structure grows node by node (AddGroup), dependencies first;    *)
(*                  every reachable build state is a complete import structure                 *)
(*   phase "deps"   deps_from_import_graph visits one graph node per step (Dfg)                *)
(*   phase "plan"   PytypeRunner.setup_build consumes one item of yield_sorted_modules per     *)
(*                  step (Plan): skip / default stub / build statement + imports map           *)
(*   phase "exec"   ninja runs the plan: Start(s) when the declared inputs exist and a job      *)
(*                  slot is free, Finish(s) produces the output; any interleaving               *)
(* Property: on every reachable exec state every step that may start finds every file it       *)
(* reads (NoReadBeforeWrite), the plan never gets stuck, and the static clauses hold.           *)
EXTENDS BuildPlanOps, TLC, Json

CONSTANTS MaxFiles,     \* bound on files in the import graph
          MaxGroup,     \* bound on files per graph node (SCC size)
          KindSet,      \* which <<kind, requested>> choices a file has: "l" | "ls" | "lss" | "all"
                        \* | "x" (Local, System and pytype_extensions.*) | "allx" (all + SysExt)
          DepOrders,    \* "any": every order of the out-edges; "mono": ascending or descending
          Jobs,         \* ninja -j
          Mode          \* "check": all phases; "structs": build phase only, export every structure;
                        \* "sim": random structures of exactly MaxFiles files, exported

VARIABLES S, phase, g, acc, ys, pc, pst, started, done

vars == <<S, phase, g, acc, ys, pc, pst, started, done>>

EmptyS == [kind |-> <<>>, req |-> <<>>, grp |-> <<>>, gdeps |-> <<>>]
NoAcc == [s2d |-> <<>>, mods |-> <<>>]
NoPst == [files |-> {}, m2out |-> <<>>, m2imap |-> <<>>, stmts |-> <<>>, err |-> FALSE]

Init ==
  /\ S = EmptyS /\ phase = "build" /\ g = 0 /\ acc = NoAcc /\ ys = <<>> /\ pc = 0 /\ pst = NoPst
  /\ started = {} /\ done = {}

Ascending(q) == \A x \in 1 .. Len(q) - 1 : q[x] < q[x + 1]
Descending(q) == \A x \in 1 .. Len(q) - 1 : q[x] > q[x + 1]
DepSeqs(k) ==
  {q \in UNION {[1 .. n -> 1 .. k] : n \in 0 .. k} :
     /\ Injective(q)
     /\ DepOrders = "mono" => Ascending(q) \/ Descending(q)}

AddGroup(members, deps) ==
  /\ phase = "build"
  /\ NF(S) + Len(members) <= MaxFiles
  /\ S' = [kind |-> S.kind \o [x \in DOMAIN members |-> members[x][1]],
           req |-> S.req \o [x \in DOMAIN members |-> members[x][2]],
           grp |-> S.grp \o [x \in DOMAIN members |-> NG(S) + 1],
           gdeps |-> Append(S.gdeps, deps)]
  /\ UNCHANGED <<phase, g, acc, ys, pc, pst, started, done>>

Freeze ==
  /\ phase = "build" /\ NF(S) >= 1
  /\ phase' = "deps" /\ g' = 1 /\ acc' = DfgInit(S)
  /\ UNCHANGED <<S, ys, pc, pst, started, done>>

Dfg ==
  /\ phase = "deps"
  /\ IF g <= NG(S)
       THEN /\ acc' = DfgStep(S, acc, g) /\ g' = g + 1
            /\ UNCHANGED <<phase, ys, pc, pst>>
       ELSE /\ phase' = "plan" /\ ys' = Yields(S, acc.mods) /\ pc' = 1 /\ pst' = PInit(S)
            /\ UNCHANGED <<g, acc>>
  /\ UNCHANGED <<S, started, done>>

Plan ==
  /\ phase = "plan"
  /\ IF pc <= Len(ys)
       THEN pst' = PStep(S, pst, ys[pc]) /\ pc' = pc + 1 /\ UNCHANGED phase
       ELSE phase' = "exec" /\ UNCHANGED <<pst, pc>>
  /\ UNCHANGED <<S, g, acc, ys, started, done>>

P == pst.stmts
I == InitialFiles(S, P)

Start(s) ==
  /\ phase = "exec"
  /\ CanStart(P, I, started, done, s)
  /\ Cardinality(started \ done) < Jobs
  /\ started' = started \cup {s}
  /\ UNCHANGED <<S, phase, g, acc, ys, pc, pst, done>>

Finish(s) ==
  /\ phase = "exec"
  /\ s \in started \ done
  /\ done' = done \cup {s}
  /\ UNCHANGED <<S, phase, g, acc, ys, pc, pst, started>>

KindReq ==
  CASE KindSet = "l" -> {<<"Local", FALSE>>, <<"Local", TRUE>>}
    [] KindSet = "ls" -> {<<"Local", FALSE>>, <<"Local", TRUE>>, <<"System", FALSE>>}
    [] KindSet = "lss" -> {<<"Local", FALSE>>, <<"Local", TRUE>>, <<"System", FALSE>>, <<"Stub", FALSE>>}
    [] KindSet = "x" -> {<<"Local", FALSE>>, <<"Local", TRUE>>, <<"System", FALSE>>, <<"SysExt", FALSE>>}
    [] KindSet = "allx" -> {<<"Local", FALSE>>, <<"Local", TRUE>>, <<"Direct", TRUE>>, <<"System", FALSE>>,
                            <<"Builtin", FALSE>>, <<"Stub", FALSE>>, <<"SysExt", FALSE>>}
    [] OTHER -> {<<"Local", FALSE>>, <<"Local", TRUE>>, <<"Direct", TRUE>>, <<"System", FALSE>>,
                 <<"Builtin", FALSE>>, <<"Stub", FALSE>>}

Room == IF MaxFiles - NF(S) < MaxGroup THEN MaxFiles - NF(S) ELSE MaxGroup
Members == UNION {[1 .. n -> KindReq] : n \in 1 .. Room}

Build == \E deps \in DepSeqs(NG(S)) : \E members \in Members : AddGroup(members, deps)

Next ==
  CASE Mode = "structs" -> Build \/ Freeze
    [] Mode = "sim" -> IF NF(S) < MaxFiles THEN Build ELSE Freeze
    [] OTHER -> \/ Build \/ Freeze \/ Dfg \/ Plan
                \/ \E s \in DOMAIN P : Start(s) \/ Finish(s)

Spec == Init /\ [][Next]_vars

-----------------------------------------------------------------------------
TypeOK ==
  /\ phase \in {"build", "deps", "plan", "exec"}
  /\ phase = "build" => WellFormed(S)
  /\ done \subseteq started /\ started \subseteq DOMAIN P

(* the planner never indexes module_to_output with a module it has not seen *)
NoPlannerError == ~pst.err

(* the step-wise planner equals the pure fold used by the trace module *)
StepwiseEqualsPure == (phase = "exec" /\ started = {}) => pst = PlanOf(S)

NoReadBeforeWrite == phase = "exec" => RBW(P, I, started, done) = {}

NeverStuck == phase = "exec" => ~Stuck(P, I, started, done)

StaticOK == (phase = "exec" /\ started = {}) => StaticFails(S, P) = {}

(* the requested files are exactly the files analysed for errors; nothing is built after the  *)
(* last requested file (files >= filenames)                                                    *)
NothingAfterLastRequested ==
  (phase = "exec" /\ started = {} /\ P # <<>>) =>
     LET last == P[Len(P)] IN last.action = "check" /\ last.out = Pyi(last.module, 0)

(* informational probe (expected to be violated when DepOrders = "any"): first-pass stubs     *)
(* never leak out of their cycle                                                               *)
NoFirstPassLeak == (phase = "exec" /\ started = {}) => FirstPassLeaks(S, P) = {}

(* the family of directory names the driver must use (printed once per run of this module) *)
ASSUME NAdv = 15 /\ \A x, y \in 1 .. NAdv : x # y => AdvNames[x] # AdvNames[y]
ASSUME PrintT(<<"NAMES", ToJson(AdvTriples)>>)

ExportInv ==
  (Mode \in {"structs", "sim"} /\ phase = "deps") => PrintT(<<"CASE", ToJson(S)>>)

(* VIEW: the executor state together with the plan (the planner's scratch state is history)  *)
=============================================================================

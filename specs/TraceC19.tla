------------------------------ MODULE TraceC19 ------------------------------
(* Code -> spec for C19.  Each case is one project: the import structure S (exported by       *)
(* BuildPlan.tla), and what the REAL code made of it: deps_from_import_graph's result and the  *)
(* plan that PytypeRunner.setup_build wrote, parsed back from build.ninja and the *.imports     *)
(* files (paths are the real strings).  `dict` is the driver's table path -> file identity,     *)
(* made before the code ran; `initial` are the files that exist before the build.               *)
(*                                                                                            *)
(* Two kinds of cases:                                                                         *)
(*   events = <<>>   TLC runs the executor of BuildPlanOps on the real plan and explores every *)
(*                   schedule (one atomic Run(s) per step; states = sets of finished steps)     *)
(*   events # <<>>   the schedule recorded from a real `ninja -j` run (start/finish records of   *)
(*                   a stand-in pytype-single) is followed with Start/Finish; a start record is  *)
(*                   <<"start", step, files missing when it began, the --imports_info argument   *)
(*                   it received, the positional arguments it received>>                         *)
(* A build statement as read back: out/input = the first output / explicit input ("" if none), *)
(* extra = every further output, explicit input and order-only dependency (the planner writes   *)
(* exactly one output and one input; a path that the lexer splits in two shows up here).        *)
(* names = the directory names of the case (a member of BuildPlanOps!AdvTriples, or the plain   *)
(* triple); fault = "" | "planner-exception" | "ninja-syntax" (build.ninja cannot be lexed).    *)
(* Verdicts are total: BAD lines name every failing clause; DIV lines are differences between  *)
(* the planner model's prediction and the real plan (informational).                            *)
EXTENDS BuildPlanOps, Json, IOUtils, TLC, TLCExt

Cases == JsonDeserialize(IOEnv.TRACE_FILE)

VARIABLES i, k, started, done

Look(d, p, dflt) ==
  IF \E x \in DOMAIN d : d[x][1] = p THEN d[CHOOSE x \in DOMAIN d : d[x][1] = p][2] ELSE dflt
UNKNOWN == <<"unknown", 0, 0>>
FileId(c, p) == Look(c.dict, p, UNKNOWN)

AbsStmt(c, st) ==
  [out |-> FileId(c, st.out), action |-> st.action, input |-> FileId(c, st.input),
   deps |-> [x \in DOMAIN st.deps |-> FileId(c, st.deps[x])],
   imports |-> FileId(c, st.imports),
   imap |-> [x \in DOMAIN st.imap |-> <<Look(c.keys, st.imap[x][1], 0), FileId(c, st.imap[x][2])>>],
   module |-> Look(c.mods, st.module, 0)]
AbsPlan(c) == [s \in DOMAIN c.plan |-> AbsStmt(c, c.plan[s])]

StructOf(c) == [kind |-> c.S.kind, req |-> c.S.req, grp |-> c.S.grp, gdeps |-> c.S.gdeps]

(* every path string that occurs in the plan as it was read back *)
PlanPaths(c) ==
  UNION {{c.plan[s].out, c.plan[s].input, c.plan[s].imports} \cup ToSet(c.plan[s].deps)
           \cup ToSet(c.plan[s].extra)
           \cup {c.plan[s].imap[x][2] : x \in DOMAIN c.plan[s].imap} : s \in DOMAIN c.plan}
PlanKeys(c) == UNION {{c.plan[s].imap[x][1] : x \in DOMAIN c.plan[s].imap} : s \in DOMAIN c.plan}

(* the two command lines: the variables of a build statement reach pytype-single *)
Follows(t, a, b) == \E x \in 1 .. Len(t) - 1 : t[x] = a /\ t[x + 1] = b
RuleOK(r) ==
  LET t == r[2] IN
  /\ Follows(t, "--imports_info", "$imports") /\ Follows(t, "-o", "$out")
  /\ Follows(t, "--module-name", "$module") /\ t[Len(t)] = "$in"
  /\ (r[1] = "infer") = ("--no-report-errors" \in ToSet(t))
RulesOK(c) ==
  c.plan # <<>> => /\ {c.rules[x][1] : x \in DOMAIN c.rules} = {"check", "infer"}
                  /\ \A x \in DOMAIN c.rules : RuleOK(c.rules[x])

UnknownPaths(c) == {p \in PlanPaths(c) : FileId(c, p) = UNKNOWN}
(* one output, one explicit input, no order-only dependencies: what write_build_statement writes *)
NinjaShapeOK(c) ==
  \A s \in DOMAIN c.plan : c.plan[s].extra = <<>> /\ c.plan[s].out # "" /\ c.plan[s].input # ""

(* the plan is made of the project's paths; the graph clauses (and the executor) speak about    *)
(* file identities, so they are judged only on plans whose paths all have one                   *)
PathsOK(c) == UnknownPaths(c) = {} /\ NinjaShapeOK(c)

StaticVerdict(c) ==
  IF c.crash # "" THEN {IF c.fault = "" THEN "crash" ELSE c.fault}
  ELSE LET S == StructOf(c)
           AP == AbsPlan(c)
       IN (IF UnknownPaths(c) # {} THEN {"paths"} ELSE {})
          \cup (IF NinjaShapeOK(c) THEN {} ELSE {"ninja-shape"})
          \cup (IF RulesOK(c) THEN {} ELSE {"rules"})
          \cup (IF ~PathsOK(c) THEN {}
                ELSE (IF \E q \in PlanKeys(c) : Look(c.keys, q, 0) = 0 THEN {"keys"} ELSE {})
                     \cup (IF \E s \in DOMAIN c.plan : Look(c.mods, c.plan[s].module, 0) = 0 THEN {"modname"} ELSE {})
                     \cup StaticFails(S, AP))

AbsSrcs(c) ==
  [x \in DOMAIN c.srcs |->
     [group |-> [y \in DOMAIN c.srcs[x].group |-> FileId(c, c.srcs[x].group[y])[2]],
      deps |-> [y \in DOMAIN c.srcs[x].deps |-> FileId(c, c.srcs[x].deps[y])[2]]]]

Divergences(c) ==
  IF c.crash # "" THEN {}
  ELSE LET S == StructOf(c) IN
       (IF AbsSrcs(c) = DepsFromGraph(S) THEN {} ELSE {"deps"})
       \cup (IF AbsPlan(c) = PlanOf(S).stmts THEN {} ELSE {"plan"})

-----------------------------------------------------------------------------
Live == i <= Len(Cases)
C == Cases[i]
P == C.plan
I == ToSet(C.initial)
Following == Live /\ C.events # <<>>

TInit == i = 1 /\ k = 0 /\ started = {} /\ done = {} /\ TLCSet(1, FALSE)

(* explore: one atomic step (start, read, finish) *)
Run(s) ==
  /\ Live /\ ~Following /\ C.crash = ""
  /\ CanStart(P, I, started, done, s)
  /\ started' = started \cup {s} /\ done' = done \cup {s}
  /\ UNCHANGED <<i, k>>

(* follow the recorded schedule *)
Follow ==
  /\ Following /\ k < Len(C.events)
  /\ LET e == C.events[k + 1] IN
       IF e[1] = "start" THEN started' = started \cup {e[2]} /\ UNCHANGED done
       ELSE done' = done \cup {e[2]} /\ UNCHANGED started
  /\ k' = k + 1 /\ UNCHANGED i

NextCase ==
  /\ Live
  /\ IF Following THEN k = Len(C.events)
     ELSE C.crash # "" \/ Quiescent(P, I, started, done)
  /\ i' = i + 1 /\ k' = 0 /\ started' = {} /\ done' = {}
  /\ (i' > Len(Cases) => TLCSet(1, TRUE))

TNext == Live /\ ((\E s \in DOMAIN P : Run(s)) \/ Follow \/ NextCase)

(* verdict on the current state *)
Fails ==
  IF ~Live THEN {}
  ELSE IF Following THEN
    (IF k = 0 THEN StaticVerdict(C) ELSE
       LET e == C.events[k] IN
       IF e[1] = "start"
         THEN (IF e[4] # P[e[2]].imports \/ e[5] # <<P[e[2]].input>>
                 \* explained by the known shell-quoting finding only if the output directory's
                 \* name means something to the shell ($in and $out are quoted by ninja itself)
                 THEN (IF C.names.out \in ShellSensitiveNames THEN {"shell-argv"}
                       ELSE {"shell-argv-unexplained"})
               ELSE IF e[3] # <<>> THEN {"rbw-observed"} ELSE {})
              \cup (IF MissingReads(P, I, done, e[2]) # {} THEN {"rbw"} ELSE {})
         ELSE {})
    \cup (IF k = Len(C.events) /\ done # DOMAIN P THEN {"incomplete"} ELSE {})
  ELSE
    (IF started = {} THEN StaticVerdict(C) ELSE {})
    \cup (IF C.crash = "" /\ RBW(P, I, started, done) # {} /\ PathsOK(C) THEN {"rbw"} ELSE {})
    \cup (IF C.crash = "" /\ Stuck(P, I, started, done) /\ PathsOK(C) THEN {"stuck"} ELSE {})

(* the real build tool must agree with the executor's enabling condition (machinery check) *)
NinjaAgrees ==
  (Following /\ k > 0) =>
    LET e == C.events[k] IN
    IF e[1] = "start" THEN DepsReady(P, I, done, e[2]) /\ e[2] \in DOMAIN P
    ELSE e[2] \in started

Divs == IF Live /\ k = 0 /\ started = {} THEN Divergences(C) ELSE {}

(* the driver used directory names of the spec's family (machinery check) *)
FamilyOK == (Live /\ k = 0 /\ started = {}) => C.names \in ToSet(AdvTriples) \cup {PlainTriple}

Ok ==
  /\ LET f == Fails IN
       f = {} \/ PrintT(<<"BAD", ToJson([i |-> i, fails |-> f, done |-> done,
                                        rbw |-> IF Live /\ ~Following /\ C.crash = "" THEN RBW(P, I, started, done) ELSE {},
                                        unknown |-> IF "paths" \in f THEN UnknownPaths(C) ELSE {},
                                        undeclared |-> IF "undeclared-read" \in f THEN UndeclaredReads(AbsPlan(C)) ELSE {}])>>)
  /\ FamilyOK \/ PrintT(<<"FAMILY", ToJson([i |-> i])>>)
  /\ LET d == Divs IN d = {} \/ PrintT(<<"DIV", ToJson([i |-> i, divs |-> d])>>)
  /\ NinjaAgrees \/ PrintT(<<"NINJA", ToJson([i |-> i, k |-> k])>>)

Done == TLCGet(1)
=============================================================================

------------------------------- MODULE Reach -------------------------------
(* Backward-reachability cache of the typegraph (pytype/typegraph/reachable.cc) and the way   *)
(* Program/CFGNode drive it (typegraph.cc: NewCFGNode, ConnectTo, Program::is_reachable).       *)
(*                                                                                              *)
(* Operational model: the bit matrix adj_ with W-bit buckets (W = 64 in the code; the model     *)
(* checker uses W = 2 so that bucket boundaries are crossed with 5 nodes).                      *)
(* Declarative meaning (property C09): is_reachable(a, b) <=> a directed path a ->* b exists   *)
(* in the edges inserted so far (reflexive).                                                    *)
(* Abstract step machine `fwd` (bucket-free) is what trace validation advances; the model       *)
(* checker shows adj, fwd and TrueReach agree in every reachable state.                         *)
EXTENDS Naturals, FiniteSets, Sequences, TLC, Json

CONSTANTS MaxNodes,   \* bound on node creations
          W,          \* bucket width
          MaxOps,     \* bound on history length
          Export      \* BOOLEAN: print every maximal history as a JSON case

VARIABLES num,    \* number of nodes created (ids 0..num-1)
          adj,    \* [0..num-1 -> Seq(SUBSET (0..W-1))]  : the code's adj_ rows, bucketed
          edges,  \* set of <<a, b>> forward CFG edges actually registered
          fwd,    \* [0..num-1 -> SUBSET 0..num-1] abstract forward reach sets
          hist    \* sequence of operations performed (history = identity of the state)

vars == <<num, adj, edges, fwd, hist>>

Node == 0 .. (num - 1)
Size(n) == (n + W - 1) \div W
Bit(row, j) == (j % W) \in row[(j \div W) + 1]

(* ReachabilityAnalyzer::add_node *)
AddNodeRows ==
  LET size == Size(num + 1) IN
  [i \in 0 .. num |->
     IF i = num
       THEN [k \in 1 .. size |-> IF k = (num \div W) + 1 THEN {num % W} ELSE {}]
       ELSE [k \in 1 .. size |-> IF k <= Len(adj[i]) THEN adj[i][k] ELSE {}]]

(* ReachabilityAnalyzer::add_connection(src, dst) *)
AddConnectionRows(src, dst) ==
  [i \in DOMAIN adj |->
     IF Bit(adj[i], src)
       THEN [k \in 1 .. Len(adj[i]) |-> adj[i][k] \cup adj[dst][k]]
       ELSE adj[i]]

(* Program::NewCFGNode *)
NewNode ==
  /\ num < MaxNodes
  /\ num' = num + 1
  /\ adj' = AddNodeRows
  /\ fwd' = [i \in 0 .. num |-> IF i = num THEN {num} ELSE fwd[i]]
  /\ UNCHANGED edges
  /\ hist' = Append(hist, <<"node", num, num>>)

(* CFGNode::ConnectTo(a -> b): ignores self edges and duplicates, registers the edge backwards *)
ConnectTo(a, b) ==
  /\ hist' = Append(hist, <<"edge", a, b>>)
  /\ UNCHANGED num
  /\ IF a = b \/ <<a, b>> \in edges
       THEN UNCHANGED <<adj, edges, fwd>>
       ELSE /\ edges' = edges \cup {<<a, b>>}
            /\ adj' = AddConnectionRows(b, a)
            /\ fwd' = [i \in Node |-> IF a \in fwd[i] THEN fwd[i] \cup fwd[b] ELSE fwd[i]]

Init == num = 0 /\ adj = <<>> /\ edges = {} /\ fwd = <<>> /\ hist = <<>>

Next == /\ Len(hist) < MaxOps
        /\ \/ NewNode
           \/ \E a, b \in Node : ConnectTo(a, b)

Spec == Init /\ [][Next]_vars

(* Generator for long random histories (tlc -simulate): one random successor per step.  Used  *)
(* for graphs that span several 64-bit buckets; a third of the steps create a node, late      *)
(* edges join large components in either direction (back edges included).                     *)
SimNext ==
  /\ Len(hist) < MaxOps
  /\ IF num < 2 \/ (num < MaxNodes /\ RandomElement(1 .. 3) = 1)
       THEN NewNode
       ELSE LET a == RandomElement(Node)
                b == RandomElement(Node) IN ConnectTo(a, b)
SimSpec == Init /\ [][SimNext]_vars

(* Program::is_reachable(src, dst) = backward_reachability_->is_reachable(dst, src) *)
ImplReach(a, b) == Bit(adj[b], a)

(* Declarative reachability: least fixed point of the edge relation, reflexive *)
RECURSIVE Closure(_)
Closure(S) ==
  LET U == S \cup {<<p[1][1], p[2][2]>> : p \in {q \in S \X S : q[1][2] = q[2][1]}} IN
  IF U = S THEN S ELSE Closure(U)

TrueReachRel == Closure(edges \cup {<<n, n>> : n \in Node})
TrueReach(a, b) == <<a, b>> \in TrueReachRel

ReachCorrect == \A a, b \in Node : ImplReach(a, b) <=> TrueReach(a, b)
AbstractCorrect == \A a \in Node : fwd[a] = {b \in Node : TrueReach(a, b)}
RowsSized == \A i \in Node : Len(adj[i]) = Size(num)

ExportInv ==
  (Export /\ Len(hist) = MaxOps) => PrintT(<<"CASE", ToJson([h |-> hist])>>)
=============================================================================

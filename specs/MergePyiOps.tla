---------------------------- MODULE MergePyiOps ----------------------------
(* Pure operators for C20: merge-pyi (pytype/tools/merge_pyi/merge_pyi.py and the libcst        *)
(* ApplyTypeAnnotationsVisitor it drives with overwrite_existing_annotations=False,            *)
(* strict_posargs_matching=False, strict_annotation_matching=True).                            *)
(*                                                                                            *)
(* A program is a table of annotation slots; the stub offers a type for each slot.             *)
(*   slot.kind  "param" | "ret" | "modvar" | "clsvar"                                          *)
(*   slot.ctx   param:  "plain" | "default" (p=None) | "kwonly" | "star" (star p)                  *)
(*              ret:    "plain"                                                                *)
(*              var:    "assign" (v = e) | "annotated" (v: T = e) | "tuple" (v, w = e) |        *)
(*                      "multi" (v = w = e) | "reassign" (v = e; v = e) | "infunc" (local) |     *)
(*                      "decl" (v: X, a value-less declaration the author wrote) |               *)
(*                      "localann" (v: X = e inside a function body)                             *)
(*   slot.ex    existing annotation: "none" | "T" | "Any" | "Never" (the author wrote a bare      *)
(*              Any / Never himself) | "QAny" (spelled typing.Any)                               *)
(*   slot.st    what the stub says: "none" | "T" (the same text) | "U" (another type) | "Any" |  *)
(*              "Never" | "triv" (int, str, ...) | "Lit" (Literal[...])                          *)
(* table.fl     flavour of the one function that holds the param/ret slots:                    *)
(*              "plain" | "method" | "static" | "decorated" | "async" | "nested"                 *)
(* table.am     the stub's def has the same parameter shape (FunctionKey) as the source's       *)
(* Result of a slot: "none" (no annotation) | "ex" (the existing one) | "st" (the stub's)       *)
(*                                                                                            *)
(* asCoded = FALSE: the rule table (what the property asks for).  asCoded = TRUE: the code as   *)
(* written, with its two known deviations:                                                     *)
(*   - RemoveAnyNeverTransformer.leave_AnnAssign tests the Annotation node itself against Name  *)
(*     and therefore never fires (Any / Never stay on variables);                               *)
(*   - the applier looks a tuple / chained target of a class body up under its class-qualified  *)
(*     name but emits the declaration `v: T` at module level under the bare name (Stray);       *)
(*   - (no effect on the property) a re-assigned variable stops all later variable lookups.     *)
(*                                                                                            *)
(* The two filters are passes over the STUB.  What the author wrote is never filtered: an       *)
(* existing `-> Any`, `v: Never = e` or `v: Any` stays (Kept), although NoBareAnyNever forbids   *)
(* inserting the same text.  PostFilter is the design alternative "run the Any / Never filter    *)
(* over the merged source as well"; it cannot tell the author's annotations from inserted ones  *)
(* and violates Kept (design witness in MergePyi.tla, FilterMerged = TRUE).                      *)
EXTENDS Naturals, Sequences, FiniteSets

AnyNever == {"Any", "Never"}
Trivial == {"triv", "Lit"}
VarKinds == {"modvar", "clsvar"}
FuncKinds == {"param", "ret"}

(* pass 1 over the stub: RemoveAnyNeverTransformer *)
AfterAnyNever(asCoded, s) ==
  IF s.kind = "ret" /\ s.st \in AnyNever THEN "none"
  ELSE IF s.kind \in VarKinds /\ s.st \in AnyNever /\ ~asCoded THEN "none"
  ELSE s.st

(* pass 2 over the stub: RemoveTrivialTypesTransformer removes value-less declarations of       *)
(* int/str/float/bool/complex/Literal[..] (stubs printed by pytype never carry values)          *)
AfterTrivial(s, st) == IF s.kind \in VarKinds /\ st \in Trivial THEN "none" ELSE st

Filtered(asCoded, t) == [k \in DOMAIN t.slots |-> AfterTrivial(t.slots[k], AfterAnyNever(asCoded, t.slots[k]))]

FuncSlots(t) == {k \in DOMAIN t.slots : t.slots[k].kind \in FuncKinds}

(* leave_FunctionDef: the stub's def is found by qualified name and parameter shape; functions  *)
(* inside function bodies are never visited                                                     *)
Applicable(t) == t.fl # "nested" /\ t.am

(* the existing annotation and the stub's type are the same expression (the stub collector      *)
(* dequalifies typing.Any to Any, so an existing typing.Any equals nothing the stub can offer)  *)
ExAnns == {"T", "Any", "Never", "QAny"}
SameAnn(ex, st) == ex = st /\ ex \in {"T", "Any", "Never"}

(* _match_signatures with strict_annotation_matching: an existing annotation that differs from  *)
(* the stub's leaves the whole function untouched (star parameters are not compared)            *)
Clash(t, fst) ==
  \E k \in FuncSlots(t) :
    t.slots[k].ctx # "star" /\ t.slots[k].ex # "none" /\ fst[k] # "none" /\ ~SameAnn(t.slots[k].ex, fst[k])

(* as coded only: _annotate_single_target leaves the name of a variable that is assigned again   *)
(* (and already annotated) on the qualifier stack; every later variable of the module is then     *)
(* looked up under a wrong qualified name and stays unannotated                                  *)
Leak(asCoded, t, fst, k) ==
  asCoded /\ \E j \in 1 .. k - 1 :
    t.slots[j].kind \in VarKinds /\ t.slots[j].ctx = "reassign" /\ t.slots[j].ex = "none" /\ fst[j] # "none"

ApplySlot(asCoded, t, fst, k) ==
  LET s == t.slots[k] IN
  IF s.ex # "none" THEN "ex"
  ELSE IF s.kind \in FuncKinds
    THEN IF Applicable(t) /\ ~Clash(t, fst) /\ s.ctx # "star" /\ fst[k] # "none" THEN "st" ELSE "none"
  ELSE IF Leak(asCoded, t, fst, k) THEN "none"
  ELSE IF s.ctx \in {"assign", "reassign"} THEN (IF fst[k] # "none" THEN "st" ELSE "none")
  ELSE IF s.ctx \in {"tuple", "multi"} /\ s.kind = "modvar"
    THEN (IF fst[k] # "none" THEN "st" ELSE "none")    \* as a declaration `v: T` above the statement
  ELSE "none"                                          \* locals; tuple / chained targets in a class body
                                                       \* (ctx annotated / decl / localann always have ex # "none")

Merge(asCoded, t) ==
  LET fst == Filtered(asCoded, t) IN [k \in DOMAIN t.slots |-> ApplySlot(asCoded, t, fst, k)]

(* slots whose stub type ends up as a module-level declaration of an unrelated (bare) name *)
StraySlot(asCoded, t, fst, k) ==
  LET s == t.slots[k] IN
  /\ asCoded /\ s.kind = "clsvar" /\ s.ctx \in {"tuple", "multi"} /\ s.ex = "none" /\ fst[k] # "none"
  /\ ~Leak(asCoded, t, fst, k)
Stray(asCoded, t) ==
  LET fst == Filtered(asCoded, t) IN {k \in DOMAIN t.slots : StraySlot(asCoded, t, fst, k)}

(* the text a slot carries in the merged source *)
ResText(t, res, k) ==
  IF res[k] = "ex" THEN t.slots[k].ex ELSE IF res[k] = "st" THEN t.slots[k].st ELSE "none"

(* design alternative: RemoveAnyNeverTransformer visits the merged source too (Name nodes only, *)
(* so typing.Any survives); a value-less declaration is deleted, a return / variable loses its   *)
(* annotation                                                                                  *)
PostFilter(t, res) ==
  [k \in DOMAIN res |->
     IF t.slots[k].kind \in {"ret"} \cup VarKinds /\ ResText(t, res, k) \in AnyNever THEN "none" ELSE res[k]]

-----------------------------------------------------------------------------
(* The property, on a table and a result *)

Kept(t, res) == \A k \in DOMAIN t.slots : t.slots[k].ex # "none" => res[k] = "ex"
FromStub(t, res) == \A k \in DOMAIN t.slots : res[k] \notin {"none", "ex"} => res[k] = "st" /\ t.slots[k].st # "none"
NoBareAnyNever(t, res) ==
  \A k \in DOMAIN t.slots :
    (t.slots[k].kind \in {"ret"} \cup VarKinds /\ res[k] = "st") => t.slots[k].st \notin AnyNever
(* every inserted annotation sits on the definition the stub gave it for *)
NoStray(strays) == strays = {}
(* operational: a function is annotated as a whole or not at all *)
AllOrNothing(asCoded, t, res) ==
  Clash(t, Filtered(asCoded, t)) => \A k \in FuncSlots(t) : res[k] # "st"
=============================================================================

----------------------------- MODULE ArgBindOps -----------------------------
(* Pure operators of the argument-binding specification (property C13).                      *)
(*                                                                                            *)
(* Signature  s = [po, pk, va, ko, kw, pdef, kdef]                                            *)
(*   po    number of positional-only parameters        a1 .. a<po>                            *)
(*   pk    number of positional-or-keyword parameters  b1 .. b<pk>                            *)
(*   va    BOOLEAN: *va present                                                               *)
(*   ko    number of keyword-only parameters           k1 .. k<ko>                            *)
(*   kw    BOOLEAN: **kw present                                                              *)
(*   pdef  number of positional parameters with a default (the LAST pdef of a1..,b1..)        *)
(*   kdef  set of keyword-only parameters with a default                                      *)
(* i.e.   def f(a1, a2, /, b1, b2=D, *va, k1, k2=D, **kw)                                     *)
(* Call  c = [npos, kws]: npos positional actuals, kws the set of keyword names used.         *)
(*                                                                                            *)
(* Bind(s, c) is CPython's algorithm (Python/ceval.c initialize_locals): positionals are      *)
(* copied, the surplus goes to *va, keywords are matched against b*/k* names (a*-names and    *)
(* unknown names go to **kw if present, else TypeError; a name that is already filled is      *)
(* "multiple values"), then the surplus-without-*va check, then defaults / missing.           *)
EXTENDS Naturals, Sequences, FiniteSets, TLC

PoNames == <<"a1", "a2", "a3">>
PkNames == <<"b1", "b2", "b3">>
KoNames == <<"k1", "k2", "k3">>
ToSet(q) == {q[x] : x \in DOMAIN q}
Min2(a, b) == IF a < b THEN a ELSE b

Signatures(N) ==
  {s \in [po : 0 .. N, pk : 0 .. N, va : BOOLEAN, ko : 0 .. N, kw : BOOLEAN,
          pdef : 0 .. 2 * N, kdef : SUBSET ToSet(KoNames)] :
     /\ s.pdef <= s.po + s.pk
     /\ s.kdef \subseteq ToSet(SubSeq(KoNames, 1, s.ko))}

NPosParams(s) == s.po + s.pk
PosParams(s) == SubSeq(PoNames, 1, s.po) \o SubSeq(PkNames, 1, s.pk)
PoSet(s) == ToSet(SubSeq(PoNames, 1, s.po))
PkSet(s) == ToSet(SubSeq(PkNames, 1, s.pk))
KoSet(s) == ToSet(SubSeq(KoNames, 1, s.ko))
ParamNames(s) == PoSet(s) \cup PkSet(s) \cup KoSet(s)
HasPosDefault(s, i) == i > NPosParams(s) - s.pdef

(* keyword names a call may use: every parameter name, foreign names and (star = TRUE) the    *)
(* names of the star parameters themselves ("va", "kw")                                       *)
KwUniverse(s, foreign, star) ==
  ParamNames(s) \cup foreign
  \cup (IF star /\ s.va THEN {"va"} ELSE {}) \cup (IF star /\ s.kw THEN {"kw"} ELSE {})
Calls(s, maxpos, maxkw, foreign, star) ==
  {c \in [npos : 0 .. maxpos, kws : SUBSET KwUniverse(s, foreign, star)] : Cardinality(c.kws) <= maxkw}

-----------------------------------------------------------------------------
(* The binding as a function *)

KwTargets(s) == PkSet(s) \cup KoSet(s)           \* names a keyword can fill
Extra(s, c) == c.kws \ KwTargets(s)              \* these go to **kw (or are errors)
FilledByPos(s, c) == {PosParams(s)[i] : i \in 1 .. Min2(c.npos, NPosParams(s))}

Unexpected(s, c) == IF s.kw THEN {} ELSE Extra(s, c) \ PoSet(s)
PosOnlyAsKw(s, c) == IF s.kw THEN {} ELSE Extra(s, c) \cap PoSet(s)
Multiple(s, c) == FilledByPos(s, c) \cap PkSet(s) \cap c.kws
TooMany(s, c) == c.npos > NPosParams(s) /\ ~s.va
MissingPos(s, c) ==
  {PosParams(s)[i] : i \in {j \in 1 .. NPosParams(s) :
      j > c.npos /\ PosParams(s)[j] \notin (c.kws \cap PkSet(s)) /\ ~HasPosDefault(s, j)}}
MissingKo(s, c) == {k \in KoSet(s) : k \notin c.kws /\ k \notin s.kdef}

(* error kind in CPython's order of checks; "none" = the call binds *)
ErrKind(s, c) ==
  IF Unexpected(s, c) \cup PosOnlyAsKw(s, c) \cup Multiple(s, c) # {} THEN "keyword"
  ELSE IF TooMany(s, c) THEN "too_many"
  ELSE IF MissingPos(s, c) # {} THEN "missing"
  ELSE IF MissingKo(s, c) # {} THEN "missing_kwonly"
  ELSE "none"
(* which keyword-phase messages are possible (the first offending keyword in call order wins) *)
KeywordKinds(s, c) ==
  (IF Unexpected(s, c) # {} THEN {"unexpected"} ELSE {})
  \cup (IF PosOnlyAsKw(s, c) # {} THEN {"posonly"} ELSE {})
  \cup (IF Multiple(s, c) # {} THEN {"multiple"} ELSE {})

(* sources *)
SrcPos(i) == <<"pos", i>>
SrcKw(n) == <<"kw", n>>
SrcDef(n) == <<"default", n>>

Slot(s, c, n) ==     \* source of ordinary parameter n when the call binds
  IF n \in KoSet(s) THEN (IF n \in c.kws THEN SrcKw(n) ELSE SrcDef(n))
  ELSE LET i == CHOOSE j \in 1 .. NPosParams(s) : PosParams(s)[j] = n IN
       IF i <= c.npos THEN SrcPos(i)
       ELSE IF n \in c.kws /\ n \in PkSet(s) THEN SrcKw(n) ELSE SrcDef(n)

VarArgs(s, c) ==     \* positions collected by *va
  IF c.npos > NPosParams(s) THEN [j \in 1 .. (c.npos - NPosParams(s)) |-> NPosParams(s) + j] ELSE <<>>
KwArgs(s, c) == Extra(s, c)

Bind(s, c) ==
  IF ErrKind(s, c) # "none" THEN [err |-> ErrKind(s, c)]
  ELSE [err |-> "none",
        slots |-> [n \in ParamNames(s) |-> Slot(s, c, n)],
        va |-> IF s.va THEN VarArgs(s, c) ELSE <<>>,
        kw |-> IF s.kw THEN KwArgs(s, c) ELSE {}]

-----------------------------------------------------------------------------
(* Laws of a successful binding *)

BindLaws(s, c) ==
  LET b == Bind(s, c) IN
  b.err = "none" =>
    /\ \A i \in 1 .. c.npos :      \* every positional actual is consumed exactly once
         Cardinality({n \in ParamNames(s) : b.slots[n] = SrcPos(i)})
           + Cardinality({j \in DOMAIN b.va : b.va[j] = i}) = 1
    /\ \A k \in c.kws :            \* every keyword actual is consumed exactly once
         Cardinality({n \in ParamNames(s) : b.slots[n] = SrcKw(k)})
           + (IF k \in b.kw THEN 1 ELSE 0) = 1
    /\ \A n \in ParamNames(s) :    \* a default is used only where one exists
         b.slots[n] = SrcDef(n) =>
           \/ n \in s.kdef
           \/ \E i \in 1 .. NPosParams(s) : PosParams(s)[i] = n /\ HasPosDefault(s, i)
    /\ \A n \in PoSet(s) : b.slots[n][1] # "kw"      \* positional-only: never by keyword
    /\ \A n \in KoSet(s) : b.slots[n][1] # "pos"     \* keyword-only: never positionally
    /\ (~s.va => c.npos <= NPosParams(s)) /\ (~s.kw => c.kws \subseteq KwTargets(s))

-----------------------------------------------------------------------------
(* Marker classes of the rendered programs: positional actual i is an instance of class P<i>, *)
(* keyword actual n of class K_<n>, the default of parameter n of class D_<n>.                *)
Marker(src) ==
  CASE src[1] = "pos" -> "P" \o ToString(src[2])
    [] src[1] = "kw" -> "K_" \o src[2]
    [] src[1] = "default" -> "D_" \o src[2]
=============================================================================

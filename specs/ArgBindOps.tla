----------------------------- MODULE ArgBindOps -----------------------------
(* Pure operators of the argument-binding specification (property C13).                      *)
(*                                                                                            *)
(* Signature  s = [po, pk, va, ko, kw, pdef, kdef]                                            *)
(*   po    number of positional-only parameters        a1 .. a<po>                            *)
(*   pk    number of positional-or-keyword parameters  b1 .. b<pk>                            *)
(*   va    BOOLEAN: *va present                                                               *)
(*   ko    number of keyword-only parameters           k1 .. k<ko>                            *)
(*   kw    BOOLEAN: **kw present                                                              *)
(*   pdef  number of positional parameters with a default (the LAST pdef of a1..,b1..)        *)
(*   kdef  set of keyword-only parameters with a default                                      *)
(*   pgen  generation of the positional default VALUES: 0 = the values written in the `def`,  *)
(*         g > 0 = the values of the g-th re-assignment of the history (f.__defaults__ = ...) *)
(*   kgen  the same for the keyword-only default values (f.__kwdefaults__ = {...})            *)
(* i.e.   def f(a1, a2, /, b1, b2=D, *va, k1, k2=D, **kw)                                     *)
(* Call  c = [npos, kws]: npos positional actuals, kws the set of keyword names used.         *)
(*                                                                                            *)
(* Bind(s, c) is CPython's algorithm (Python/ceval.c initialize_locals): positionals are      *)
(* copied, the surplus goes to *va, keywords are matched against b*/k* names (a*-names and    *)
(* unknown names go to **kw if present, else TypeError; a name that is already filled is      *)
(* "multiple values"), then the surplus-without-*va check, then defaults / missing.           *)
EXTENDS Naturals, Sequences, FiniteSets, TLC

PoNames == <<"a1", "a2", "a3">>
PkNames == <<"b1", "b2", "b3">>
KoNames == <<"k1", "k2", "k3">>
ToSet(q) == {q[x] : x \in DOMAIN q}
Min2(a, b) == IF a < b THEN a ELSE b

Signatures(N) ==
  {s \in [po : 0 .. N, pk : 0 .. N, va : BOOLEAN, ko : 0 .. N, kw : BOOLEAN,
          pdef : 0 .. 2 * N, kdef : SUBSET ToSet(KoNames), pgen : {0}, kgen : {0}] :
     /\ s.pdef <= s.po + s.pk
     /\ s.kdef \subseteq ToSet(SubSeq(KoNames, 1, s.ko))}

NPosParams(s) == s.po + s.pk
PosParams(s) == SubSeq(PoNames, 1, s.po) \o SubSeq(PkNames, 1, s.pk)
PoSet(s) == ToSet(SubSeq(PoNames, 1, s.po))
PkSet(s) == ToSet(SubSeq(PkNames, 1, s.pk))
KoSet(s) == ToSet(SubSeq(KoNames, 1, s.ko))
ParamNames(s) == PoSet(s) \cup PkSet(s) \cup KoSet(s)
HasPosDefault(s, i) == i > NPosParams(s) - s.pdef

(* keyword names a call may use: every parameter name, foreign names and (star = TRUE) the    *)
(* names of the star parameters themselves ("va", "kw")                                       *)
KwUniverse(s, foreign, star) ==
  ParamNames(s) \cup foreign
  \cup (IF star /\ s.va THEN {"va"} ELSE {}) \cup (IF star /\ s.kw THEN {"kw"} ELSE {})
Calls(s, maxpos, maxkw, foreign, star) ==
  {c \in [npos : 0 .. maxpos, kws : SUBSET KwUniverse(s, foreign, star)] : Cardinality(c.kws) <= maxkw}

-----------------------------------------------------------------------------
(* The binding as a function *)

KwTargets(s) == PkSet(s) \cup KoSet(s)           \* names a keyword can fill
Extra(s, c) == c.kws \ KwTargets(s)              \* these go to **kw (or are errors)
FilledByPos(s, c) == {PosParams(s)[i] : i \in 1 .. Min2(c.npos, NPosParams(s))}

Unexpected(s, c) == IF s.kw THEN {} ELSE Extra(s, c) \ PoSet(s)
PosOnlyAsKw(s, c) == IF s.kw THEN {} ELSE Extra(s, c) \cap PoSet(s)
Multiple(s, c) == FilledByPos(s, c) \cap PkSet(s) \cap c.kws
TooMany(s, c) == c.npos > NPosParams(s) /\ ~s.va
MissingPos(s, c) ==
  {PosParams(s)[i] : i \in {j \in 1 .. NPosParams(s) :
      j > c.npos /\ PosParams(s)[j] \notin (c.kws \cap PkSet(s)) /\ ~HasPosDefault(s, j)}}
MissingKo(s, c) == {k \in KoSet(s) : k \notin c.kws /\ k \notin s.kdef}

(* error kind in CPython's order of checks; "none" = the call binds *)
ErrKind(s, c) ==
  IF Unexpected(s, c) \cup PosOnlyAsKw(s, c) \cup Multiple(s, c) # {} THEN "keyword"
  ELSE IF TooMany(s, c) THEN "too_many"
  ELSE IF MissingPos(s, c) # {} THEN "missing"
  ELSE IF MissingKo(s, c) # {} THEN "missing_kwonly"
  ELSE "none"
(* which keyword-phase messages are possible (the first offending keyword in call order wins) *)
KeywordKinds(s, c) ==
  (IF Unexpected(s, c) # {} THEN {"unexpected"} ELSE {})
  \cup (IF PosOnlyAsKw(s, c) # {} THEN {"posonly"} ELSE {})
  \cup (IF Multiple(s, c) # {} THEN {"multiple"} ELSE {})

(* sources *)
SrcPos(i) == <<"pos", i>>
SrcKw(n) == <<"kw", n>>
SrcDef(n) == <<"default", n>>

Slot(s, c, n) ==     \* source of ordinary parameter n when the call binds
  IF n \in KoSet(s) THEN (IF n \in c.kws THEN SrcKw(n) ELSE SrcDef(n))
  ELSE LET i == CHOOSE j \in 1 .. NPosParams(s) : PosParams(s)[j] = n IN
       IF i <= c.npos THEN SrcPos(i)
       ELSE IF n \in c.kws /\ n \in PkSet(s) THEN SrcKw(n) ELSE SrcDef(n)

VarArgs(s, c) ==     \* positions collected by *va
  IF c.npos > NPosParams(s) THEN [j \in 1 .. (c.npos - NPosParams(s)) |-> NPosParams(s) + j] ELSE <<>>
KwArgs(s, c) == Extra(s, c)

Bind(s, c) ==
  IF ErrKind(s, c) # "none" THEN [err |-> ErrKind(s, c)]
  ELSE [err |-> "none",
        slots |-> [n \in ParamNames(s) |-> Slot(s, c, n)],
        va |-> IF s.va THEN VarArgs(s, c) ELSE <<>>,
        kw |-> IF s.kw THEN KwArgs(s, c) ELSE {}]

-----------------------------------------------------------------------------
(* A call with an INDEFINITE splat:  f(p1, .., p<npos>, *xs, k=..)  where len(xs) is not known  *)
(* before run time.  CPython binds [npos + len(xs), kws]; the elements of xs are positional     *)
(* actuals like any other.  So the outcome of the call shape c = [npos, kws] (npos = the fixed  *)
(* positionals in front of the splat) is a set of outcomes, one per length; a checker can be    *)
(* held to the call only where EVERY length agrees:                                             *)
(*   "err"      every length raises TypeError (a required keyword-only parameter is not passed, *)
(*              an unknown keyword, the fixed positionals alone are too many, ...)              *)
(*   "binds"    every length binds                                                              *)
(*   "depends"  some length binds and some raises: not judged                                   *)
(* Lengths 0 .. maxlen are examined; NPosParams(s) + 1 is enough (SplatSaturates: a longer xs   *)
(* gives the outcome of that length).                                                          *)
SplatAt(c, len) == [npos |-> c.npos + len, kws |-> c.kws]
SplatKinds(s, c, maxlen) == {ErrKind(s, SplatAt(c, len)) : len \in 0 .. maxlen}
SplatOutcome(s, c, maxlen) ==
  LET ks == SplatKinds(s, c, maxlen) IN
  IF ks = {"none"} THEN "binds" ELSE IF "none" \notin ks THEN "err" ELSE "depends"
(* why every length fails: the error kinds that occur over the lengths, joined by "+" (e.g.    *)
(* def f(b1, b2, *va) called with *xs and b1=..: length 0 lacks b2, every other length gives b1 *)
(* twice: "keyword+missing")                                                                    *)
SplatCause(s, c, maxlen) ==
  LET ks == SplatKinds(s, c, maxlen)
      ord == <<"keyword", "too_many", "missing", "missing_kwonly">>
      F[j \in 0 .. 4] ==
        IF j = 0 THEN ""
        ELSE IF ord[j] \notin ks THEN F[j - 1]
        ELSE IF F[j - 1] = "" THEN ord[j] ELSE F[j - 1] \o "+" \o ord[j] IN
  F[4]
SplatLen(s) == NPosParams(s) + 1
SplatSaturates(s, c, maxlen) ==
  \A len \in SplatLen(s) .. maxlen : ErrKind(s, SplatAt(c, len)) = ErrKind(s, SplatAt(c, SplatLen(s)))
(* causes that do not depend on the splat make every length fail *)
SplatLaws(s, c, maxlen) ==
  /\ SplatSaturates(s, c, maxlen)
  /\ (MissingKo(s, c) # {} \/ Unexpected(s, c) # {} \/ PosOnlyAsKw(s, c) # {} \/ Multiple(s, c) # {} \/ TooMany(s, c))
        => SplatOutcome(s, c, maxlen) = "err"
  /\ SplatOutcome(s, c, maxlen) = "binds" => (ErrKind(s, c) = "none" /\ s.va)

-----------------------------------------------------------------------------
(* Laws of a successful binding *)

BindLaws(s, c) ==
  LET b == Bind(s, c) IN
  b.err = "none" =>
    /\ \A i \in 1 .. c.npos :      \* every positional actual is consumed exactly once
         Cardinality({n \in ParamNames(s) : b.slots[n] = SrcPos(i)})
           + Cardinality({j \in DOMAIN b.va : b.va[j] = i}) = 1
    /\ \A k \in c.kws :            \* every keyword actual is consumed exactly once
         Cardinality({n \in ParamNames(s) : b.slots[n] = SrcKw(k)})
           + (IF k \in b.kw THEN 1 ELSE 0) = 1
    /\ \A n \in ParamNames(s) :    \* a default is used only where one exists
         b.slots[n] = SrcDef(n) =>
           \/ n \in s.kdef
           \/ \E i \in 1 .. NPosParams(s) : PosParams(s)[i] = n /\ HasPosDefault(s, i)
    /\ \A n \in PoSet(s) : b.slots[n][1] # "kw"      \* positional-only: never by keyword
    /\ \A n \in KoSet(s) : b.slots[n][1] # "pos"     \* keyword-only: never positionally
    /\ (~s.va => c.npos <= NPosParams(s)) /\ (~s.kw => c.kws \subseteq KwTargets(s))

-----------------------------------------------------------------------------
(* Re-assignment of the defaults AFTER the definition (a history: define, call*, re-assign,   *)
(* call*, ...).  CPython binds every call against the defaults the function object has AT THE *)
(* TIME OF THE CALL:                                                                          *)
(*   f.__defaults__ = (v1, .., vk)    the LAST k positional parameters have defaults v1..vk   *)
(*                                    (k = 0: none has), whatever the `def` said              *)
(*   f.__kwdefaults__ = {n: v, ..}    exactly the keyword-only parameters n have defaults     *)
(* A re-assignment r = [attr, pdef, kdef]: attr = "pos" uses pdef (= k), attr = "kw" uses     *)
(* kdef.  The g-th re-assignment of a history installs values of generation g.                *)
Redefs(s) ==
  [attr : {"pos"}, pdef : 0 .. NPosParams(s), kdef : {{}}]
  \cup (IF s.ko > 0 THEN [attr : {"kw"}, pdef : {0}, kdef : SUBSET KoSet(s)] ELSE {})
Redefine(s, r, g) ==
  IF r.attr = "pos" THEN [s EXCEPT !.pdef = r.pdef, !.pgen = g]
                    ELSE [s EXCEPT !.kdef = r.kdef, !.kgen = g]
(* the signature in force after the first m re-assignments of history h *)
Stage(s, h, m) ==
  LET F[j \in 0 .. m] == IF j = 0 THEN s ELSE Redefine(F[j - 1], h[j], j) IN F[m]

HasDefault(s, n) ==
  \/ n \in s.kdef
  \/ \E i \in 1 .. NPosParams(s) : PosParams(s)[i] = n /\ HasPosDefault(s, i)
Lost(p, s) == {n \in ParamNames(s) : HasDefault(p, n) /\ ~HasDefault(s, n)}   \* defaults p has, s has not
Supplied(s, c) == FilledByPos(s, c) \cup (c.kws \cap KwTargets(s))
UsesDefault(s, c) ==    \* the call binds and some parameter takes its default (= is not supplied)
  ErrKind(s, c) = "none" /\ \E n \in ParamNames(s) : n \notin Supplied(s, c)

(* Laws of a re-assignment p -> s (same parameters, other defaults) for any call c *)
RedefLaws(p, s, c) ==
  LET kp == ErrKind(p, c)
      ks == ErrKind(s, c)
      early == {"keyword", "too_many"} IN
  \* the keyword and surplus checks do not look at defaults
  /\ (kp \in early \/ ks \in early) => kp = ks
  \* a call that bound before fails afterwards iff it relies on a default that was removed
  /\ kp = "none" => ((ks # "none") <=> (Lost(p, s) \ Supplied(s, c)) # {})
  \* a call that lacked a parameter binds afterwards only through a default that was added
  /\ (kp \in {"missing", "missing_kwonly"} /\ ks = "none") => (Lost(s, p) \ Supplied(s, c)) # {}
  \* when it binds before and after, every parameter has the same source (the default VALUES differ)
  /\ (kp = "none" /\ ks = "none") =>
       LET a == Bind(p, c)
           b == Bind(s, c) IN
       a.slots = b.slots /\ a.va = b.va /\ a.kw = b.kw

-----------------------------------------------------------------------------
(* Marker classes of the rendered programs: positional actual i is an instance of class P<i>, *)
(* keyword actual n of class K_<n>, the default of parameter n of class D_<n> (the value in   *)
(* the `def`) or D<g>_<n> (the value installed by the g-th re-assignment).                    *)
Marker(src) ==
  CASE src[1] = "pos" -> "P" \o ToString(src[2])
    [] src[1] = "kw" -> "K_" \o src[2]
    [] src[1] = "default" -> "D_" \o src[2]
DefClass(s, n) ==
  LET g == IF n \in KoSet(s) THEN s.kgen ELSE s.pgen IN
  IF g = 0 THEN "D_" \o n ELSE "D" \o ToString(g) \o "_" \o n
MarkerIn(s, src) == IF src[1] = "default" THEN DefClass(s, src[2]) ELSE Marker(src)
=============================================================================

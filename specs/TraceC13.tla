------------------------------ MODULE TraceC13 ------------------------------
(* Code -> spec for C13.  A case is one signature rendered as one kind of callable (function, *)
(* method, classmethod, staticmethod, constructor) with every call shape that was executed:    *)
(*   [sig, kind, calls : <<[npos, kws, py, pt]>>]                                             *)
(*   py  (kind = "function" only, else FALSE) what CPython did: a real call of a callee that   *)
(*       returns locals() and inspect.signature(f).bind:                                       *)
(*       [err, bind, slots, va, kw]   -> "ORACLE" lines (the spec is wrong: machinery failure) *)
(*   pt  what pytype reported for the call line and revealed inside the callee:                *)
(*       [errs, rev, slots, va, vashape, kw]   -> "BAD" lines (property-level verdicts)        *)
(* Marker classes: positional actual i is an instance of P<i>, keyword actual n of K_<n>,     *)
(* the default of parameter n of D_<n>; observations are sets of class names.                 *)
(* "DIV" lines are informational (the error class pytype chose vs. CPython's first complaint). *)
EXTENDS ArgBindOps, Json, IOUtils, TLCExt

Cases == JsonDeserialize(IOEnv.TRACE_FILE)

VARIABLE i

SigOf(c) == [po |-> c.sig.po, pk |-> c.sig.pk, va |-> c.sig.va, ko |-> c.sig.ko, kw |-> c.sig.kw,
             pdef |-> c.sig.pdef, kdef |-> ToSet(c.sig.kdef)]
CallOf(x) == [npos |-> x.npos, kws |-> ToSet(x.kws)]

(* what a correct binding looks like in marker classes *)
ExpSlot(s, c, n) == {Marker(Bind(s, c).slots[n])}
ExpVa(s, c) == LET v == Bind(s, c).va IN [j \in DOMAIN v |-> {Marker(SrcPos(v[j]))}]
ExpKw(s, c) == {Marker(SrcKw(k)) : k \in Bind(s, c).kw}

ObsVa(o) == [j \in DOMAIN o.va |-> ToSet(o.va[j])]

-----------------------------------------------------------------------------
(* pytype's documented deviation (known finding C13:posonly-name-as-keyword-with-kwargs):     *)
(* _map_args does callargs.update(kws) for EVERY keyword when the function has **kwargs, so a  *)
(* keyword that names a positional-only parameter fills (or overwrites) that parameter and is  *)
(* left out of the **kwargs dict, instead of going to **kwargs.                                *)
DevApplies(s, c) == s.kw /\ (c.kws \cap PoSet(s)) # {}
DevMissingPos(s, c) ==
  {PosParams(s)[j] : j \in {x \in 1 .. NPosParams(s) :
      x > c.npos /\ PosParams(s)[x] \notin c.kws /\ ~HasPosDefault(s, x)}}
DevErr(s, c) ==
  Multiple(s, c) # {} \/ TooMany(s, c) \/ DevMissingPos(s, c) # {} \/ MissingKo(s, c) # {}
DevSlot(s, c, n) ==
  IF n \in c.kws /\ n \in PoSet(s) THEN {Marker(SrcKw(n))}
  ELSE IF n \in KoSet(s) THEN {Marker(IF n \in c.kws THEN SrcKw(n) ELSE SrcDef(n))}
  ELSE LET k == CHOOSE j \in 1 .. NPosParams(s) : PosParams(s)[j] = n IN
       IF k <= c.npos THEN {Marker(SrcPos(k))}
       ELSE IF n \in c.kws THEN {Marker(SrcKw(n))} ELSE {Marker(SrcDef(n))}
DevKw(s, c) == {Marker(SrcKw(k)) : k \in Extra(s, c) \ PoSet(s)}
DevVa(s, c) ==
  IF c.npos > NPosParams(s) THEN [j \in 1 .. (c.npos - NPosParams(s)) |-> {Marker(SrcPos(NPosParams(s) + j))}]
  ELSE <<>>
DevExplains(s, c, o) ==
  /\ DevApplies(s, c)
  /\ (o.errs # <<>>) = DevErr(s, c)
  /\ o.errs = <<>> =>
       /\ o.rev
       /\ \A n \in ParamNames(s) : ToSet(o.slots[n]) = DevSlot(s, c, n)
       /\ s.va => (o.vashape = "fixed" /\ ObsVa(o) = DevVa(s, c))
       /\ ToSet(o.kw) = DevKw(s, c)

-----------------------------------------------------------------------------
(* verdict for one call observed on pytype: set of failing clause names *)
PtFails(s, c, o) ==
  LET b == Bind(s, c)
      E == o.errs # <<>> IN
  IF b.err # "none" THEN (IF E THEN {} ELSE {"missed-error"})
  ELSE IF E THEN {"false-error"}
  ELSE IF ~o.rev THEN {"no-reveal"}
  ELSE {"wrong-param:" \o n : n \in {m \in ParamNames(s) : ToSet(o.slots[m]) # ExpSlot(s, c, m)}}
       \cup (IF s.va /\ ~(o.vashape = "fixed" /\ ObsVa(o) = ExpVa(s, c)) THEN {"wrong-varargs"} ELSE {})
       \cup (IF s.kw /\ ToSet(o.kw) # ExpKw(s, c) THEN {"wrong-kwargs"} ELSE {})

(* informational: does the error class pytype reports match CPython's first complaint? *)
KindAgrees(s, c, o) ==
  LET k == ErrKind(s, c)
      names == ToSet(o.errs) IN
  \/ k = "none" \/ o.errs = <<>>
  \/ k = "too_many" /\ "wrong-arg-count" \in names
  \/ k \in {"missing", "missing_kwonly"} /\ "missing-parameter" \in names
  \/ k = "keyword" /\ "multiple" \in KeywordKinds(s, c) /\ "duplicate-keyword-argument" \in names
  \/ k = "keyword" /\ KeywordKinds(s, c) \cap {"unexpected", "posonly"} # {} /\ "wrong-keyword-args" \in names

(* verdict for the CPython observation of one call (oracle discipline) *)
PyFails(s, c, p) ==
  LET b == Bind(s, c) IN
  (IF p.bind # (b.err = "none") THEN {"bind-outcome"} ELSE {})
  \cup (IF b.err = "keyword" THEN (IF p.err \in KeywordKinds(s, c) THEN {} ELSE {"error-kind"})
        ELSE IF p.err # b.err THEN {"error-kind"} ELSE {})
  \cup (IF b.err = "none" /\ p.err = "none"
          THEN {"slot:" \o n : n \in {m \in ParamNames(s) : ToSet(p.slots[m]) # ExpSlot(s, c, m)}}
               \cup (IF s.va /\ ObsVa(p) # ExpVa(s, c) THEN {"varargs"} ELSE {})
               \cup (IF s.kw /\ ToSet(p.kw) # ExpKw(s, c) THEN {"kwargs"} ELSE {})
               \cup (IF ~s.va /\ p.va # <<>> THEN {"varargs"} ELSE {})
               \cup (IF ~s.kw /\ p.kw # <<>> THEN {"kwargs"} ELSE {})
          ELSE {})

CaseBad(cs) ==    \* <<call index, failing clause, explained by the documented deviation?>>
  LET s == SigOf(cs) IN
  UNION {{<<k, f, DevExplains(s, CallOf(cs.calls[k]), cs.calls[k].pt)>> :
            f \in PtFails(s, CallOf(cs.calls[k]), cs.calls[k].pt)} : k \in DOMAIN cs.calls}
CaseOracle(cs) ==
  LET s == SigOf(cs) IN
  IF cs.kind # "function" THEN {}
  ELSE UNION {{<<k, f>> : f \in PyFails(s, CallOf(cs.calls[k]), cs.calls[k].py)} : k \in DOMAIN cs.calls}
CaseDiv(cs) ==
  LET s == SigOf(cs) IN
  {k \in DOMAIN cs.calls : ~KindAgrees(s, CallOf(cs.calls[k]), cs.calls[k].pt)}

TInit == i = 1 /\ TLCSet(1, FALSE)
TNext == /\ i <= Len(Cases)
         /\ i' = i + 1
         /\ (i' > Len(Cases) => TLCSet(1, TRUE))

Ok == i <= Len(Cases) =>
        /\ LET o == CaseOracle(Cases[i]) IN o = {} \/ PrintT(<<"ORACLE", ToJson([i |-> i, fails |-> o])>>)
        /\ LET f == CaseBad(Cases[i]) IN f = {} \/ PrintT(<<"BAD", ToJson([i |-> i, fails |-> f])>>)
        /\ LET d == CaseDiv(Cases[i]) IN d = {} \/ PrintT(<<"DIV", ToJson([i |-> i, calls |-> d])>>)

Done == TLCGet(1)
=============================================================================

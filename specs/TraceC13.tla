------------------------------ MODULE TraceC13 ------------------------------
(* Code -> spec for C13.  A case is one signature rendered as one kind of callable (function, *)
(* method, classmethod, staticmethod, constructor, stub = a function declared in a .pyi module *)
(* that the calling module imports) with every call shape that was executed:                   *)
(*   [sig, kind, crash, redefs : <<[at, attr, pdef, kdef]>>, calls : <<[npos, kws, py, pt]>>] *)
(*   redefs the history of the module: re-assignment j (`<callee>.__defaults__ = (..pdef      *)
(*          values..)` for attr = "pos", `<callee>.__kwdefaults__ = {..kdef..}` for "kw") was  *)
(*          executed after the first `at` calls (at is non-decreasing).  The trace advances    *)
(*          the signature with the spec's own Redefine, in order; call k is judged against     *)
(*          the signature in force when it was made (SigAt).                                   *)
(*   crash  "" or the exception with which pytype died on the module (then pt is empty)       *)
(*   py  what CPython did with the same header text and the same call expression: a real call *)
(*       of the callee (which returns / stores locals()) and inspect.signature(callee).bind:  *)
(*       [err, bind, slots, va, kw]   -> "ORACLE" lines (the spec is wrong: machinery failure) *)
(*   pt  what pytype reported for the call line and revealed inside the callee:                *)
(*       [errs, rev, slots, va, vashape, kw, kwkey] -> "BAD" lines (property-level verdicts)   *)
(*       errs     the classes among wrong-arg-count, wrong-keyword-args, missing-parameter,    *)
(*                duplicate-keyword-argument reported on the call line                         *)
(*       rev      every parameter was revealed for this call line                              *)
(*       slots    parameter -> class names of its revealed type (members of a union)           *)
(*       vashape  "fixed" (tuple[X, Y] / tuple[()]), else "homog" / "any"; va = per element    *)
(*       kw       class names of the dict value type, kwkey of the dict key type ("nothing"    *)
(*                is dropped: dict[nothing, nothing] is the empty dict)                         *)
(* "STAT" lines carry the spec-computed classification of every call (vacuity guards).        *)
(* Marker classes: positional actual i is an instance of P<i>, keyword actual n of K_<n>,     *)
(* the default of parameter n of D_<n> (D<g>_<n> when installed by re-assignment g);          *)
(* observations are sets of class names.                                                      *)
(* "DIV" lines are informational (the error class pytype chose vs. CPython's first complaint). *)
EXTENDS ArgBindOps, Json, IOUtils, TLCExt

Cases == JsonDeserialize(IOEnv.TRACE_FILE)

VARIABLE i

SigOf(c) == [po |-> c.sig.po, pk |-> c.sig.pk, va |-> c.sig.va, ko |-> c.sig.ko, kw |-> c.sig.kw,
             pdef |-> c.sig.pdef, kdef |-> ToSet(c.sig.kdef), pgen |-> 0, kgen |-> 0]
CallOf(x) == [npos |-> x.npos, kws |-> ToSet(x.kws)]
RedefOf(r) == [attr |-> r.attr, pdef |-> r.pdef, kdef |-> ToSet(r.kdef)]

(* Histories.  dk / ik switch on pytype's two documented deviations (known findings):          *)
(*   dk  C13:defaults-assignment-drops-kwonly-defaults: set_function_defaults REPLACES         *)
(*       signature.defaults (which also holds the keyword-only defaults) by the positional     *)
(*       ones, so after `f.__defaults__ = ..` no keyword-only parameter has a default;         *)
(*   ik  C13:kwdefaults-assignment-ignored: `f.__kwdefaults__ = ..` is stored as an ordinary   *)
(*       attribute and has no effect on the signature.                                         *)
(* dk = ik = FALSE is the language rule (the spec's Redefine).                                 *)
RedefineAs(s, r, g, dk, ik) ==
  IF r.attr = "pos" THEN (IF dk THEN [Redefine(s, r, g) EXCEPT !.kdef = {}] ELSE Redefine(s, r, g))
  ELSE IF ik THEN s ELSE Redefine(s, r, g)
AfterAs(cs, m, dk, ik) ==     \* the signature after the first m re-assignments of the case
  LET F[j \in 0 .. m] ==
        IF j = 0 THEN SigOf(cs) ELSE RedefineAs(F[j - 1], RedefOf(cs.redefs[j]), j, dk, ik) IN
  F[m]
StageOf(cs, k) == Cardinality({j \in DOMAIN cs.redefs : cs.redefs[j].at < k})
SigAt(cs, k) == AfterAs(cs, StageOf(cs, k), FALSE, FALSE)
HistoryWellFormed(cs) ==
  /\ \A j \in DOMAIN cs.redefs :
        /\ cs.redefs[j].at \in 0 .. Len(cs.calls)
        /\ j > 1 => cs.redefs[j - 1].at <= cs.redefs[j].at
        /\ RedefOf(cs.redefs[j]) \in Redefs(AfterAs(cs, j - 1, FALSE, FALSE))

(* what a correct binding looks like in marker classes *)
ExpSlot(s, c, n) == {MarkerIn(s, Bind(s, c).slots[n])}
ExpVa(s, c) == LET v == Bind(s, c).va IN [j \in DOMAIN v |-> {Marker(SrcPos(v[j]))}]
ExpKw(s, c) == {Marker(SrcKw(k)) : k \in Bind(s, c).kw}

ObsVa(o) == [j \in DOMAIN o.va |-> ToSet(o.va[j])]
(* the revealed **kw is a dict whose value type is exactly the markers in exp (keys: str) *)
ObsKwIs(o, exp) == ToSet(o.kw) = exp /\ ToSet(o.kwkey) = (IF exp = {} THEN {} ELSE {"str"})

-----------------------------------------------------------------------------
(* pytype's documented deviation (known finding C13:posonly-name-as-keyword-with-kwargs):     *)
(* _map_args does callargs.update(kws) for EVERY keyword when the function has **kwargs, so a  *)
(* keyword that names a positional-only parameter fills (or overwrites) that parameter and is  *)
(* left out of the **kwargs dict, instead of going to **kwargs.                                *)
DevApplies(s, c) == s.kw /\ (c.kws \cap PoSet(s)) # {}
DevMissingPos(s, c) ==
  {PosParams(s)[j] : j \in {x \in 1 .. NPosParams(s) :
      x > c.npos /\ PosParams(s)[x] \notin c.kws /\ ~HasPosDefault(s, x)}}
DevErr(s, c) ==
  Multiple(s, c) # {} \/ TooMany(s, c) \/ DevMissingPos(s, c) # {} \/ MissingKo(s, c) # {}
DevSlot(s, c, n) ==
  IF n \in c.kws /\ n \in PoSet(s) THEN {Marker(SrcKw(n))}
  ELSE IF n \in KoSet(s) THEN {MarkerIn(s, IF n \in c.kws THEN SrcKw(n) ELSE SrcDef(n))}
  ELSE LET k == CHOOSE j \in 1 .. NPosParams(s) : PosParams(s)[j] = n IN
       IF k <= c.npos THEN {Marker(SrcPos(k))}
       ELSE IF n \in c.kws THEN {Marker(SrcKw(n))} ELSE {MarkerIn(s, SrcDef(n))}
DevKw(s, c) == {Marker(SrcKw(k)) : k \in Extra(s, c) \ PoSet(s)}
DevVa(s, c) ==
  IF c.npos > NPosParams(s) THEN [j \in 1 .. (c.npos - NPosParams(s)) |-> {Marker(SrcPos(NPosParams(s) + j))}]
  ELSE <<>>
DevExplains(s, c, o) ==
  /\ DevApplies(s, c)
  /\ (o.errs # <<>>) = DevErr(s, c)
  /\ o.errs = <<>> =>
       /\ o.rev
       /\ \A n \in ParamNames(s) : ToSet(o.slots[n]) = DevSlot(s, c, n)
       /\ s.va => (o.vashape = "fixed" /\ ObsVa(o) = DevVa(s, c))
       /\ ObsKwIs(o, DevKw(s, c))

-----------------------------------------------------------------------------
(* verdict for one call observed on pytype: set of failing clause names.                       *)
(* ErrFails is the clause "an arity / keyword error on the call line iff Bind gives Err"; it is *)
(* the whole verdict for a STUB function (kind = "stub": the callee is known to pytype only as  *)
(* `def f(..) -> Any: ...` in a .pyi module, there is no body in which parameters could be     *)
(* revealed, so the slots are not judged).                                                     *)
ErrFails(s, c, o) ==
  LET b == Bind(s, c)
      E == o.errs # <<>> IN
  IF b.err # "none"
    THEN (IF E THEN {}
          ELSE IF b.err = "keyword"
                 THEN {"missed-error:" \o k : k \in KeywordKinds(s, c)} ELSE {"missed-error:" \o b.err})
  ELSE IF E THEN {"false-error"} ELSE {}
(* kind = "splat": a source-defined function called as f(p1, .., *xs, k=..) inside              *)
(* `def caller(xs: List[PX])`, i.e. with a list whose length is unknown.  Only the call shapes  *)
(* on which every length agrees are judged (ArgBindOps SplatOutcome): every length raises =>    *)
(* an arity / keyword error is due on the call line, every length binds => none is.            *)
SplatFails(s, c, o) ==
  LET oc == SplatOutcome(s, c, SplatLen(s))
      E == o.errs # <<>> IN
  IF oc = "err" /\ ~E THEN {"splat:missed-error:" \o SplatCause(s, c, SplatLen(s))}
  ELSE IF oc = "binds" /\ E THEN {"splat:false-error"} ELSE {}
(* CPython on the same call with xs = [PX()] * len for len = 0 .. SplatLen(s): p.lens *)
SplatPyFails(s, c, p) ==
  IF Len(p.lens) # SplatLen(s) + 1 THEN {"splat-lengths"} ELSE
  {"splat-length-" \o ToString(len) : len \in {x \in 0 .. SplatLen(s) :
      LET k == ErrKind(s, SplatAt(c, x)) IN
      IF k = "keyword" THEN p.lens[x + 1] \notin KeywordKinds(s, SplatAt(c, x)) ELSE p.lens[x + 1] # k}}
PtFails(s, c, o) ==
  LET b == Bind(s, c)
      E == o.errs # <<>> IN
  IF b.err # "none" \/ E THEN ErrFails(s, c, o)
  ELSE IF ~o.rev THEN {"no-reveal"}
  ELSE {"wrong-param:" \o n : n \in {m \in ParamNames(s) : ToSet(o.slots[m]) # ExpSlot(s, c, m)}}
       \cup (IF s.va /\ ~(o.vashape = "fixed" /\ ObsVa(o) = ExpVa(s, c)) THEN {"wrong-varargs"} ELSE {})
       \cup (IF s.kw /\ ~ObsKwIs(o, ExpKw(s, c)) THEN {"wrong-kwargs"} ELSE {})

(* informational: does the error class pytype reports match CPython's first complaint? *)
KindAgrees(s, c, o) ==
  LET k == ErrKind(s, c)
      names == ToSet(o.errs) IN
  \/ k = "none" \/ o.errs = <<>>
  \/ k = "too_many" /\ "wrong-arg-count" \in names
  \/ k \in {"missing", "missing_kwonly"} /\ "missing-parameter" \in names
  \/ k = "keyword" /\ "multiple" \in KeywordKinds(s, c) /\ "duplicate-keyword-argument" \in names
  \/ k = "keyword" /\ KeywordKinds(s, c) \cap {"unexpected", "posonly"} # {} /\ "wrong-keyword-args" \in names

(* verdict for the CPython observation of one call (oracle discipline).  The real call is the *)
(* oracle; inspect.signature(f).bind agrees with it except for one documented deficiency of   *)
(* Python 3.12's Signature._bind: a positional-only parameter that is not filled positionally *)
(* and whose name is used as a keyword is rejected ("positional only, but was passed as a     *)
(* keyword") even when the function has **kw and the parameter has a default (the real call   *)
(* puts the keyword into **kw and uses the default).                                          *)
InspectBinds(s, c) ==
  /\ Bind(s, c).err = "none"
  /\ ~\E j \in (c.npos + 1) .. s.po : PoNames[j] \in c.kws
PyFails(s, c, p) ==
  LET b == Bind(s, c) IN
  (IF p.bind # InspectBinds(s, c) THEN {"bind-outcome"} ELSE {})
  \cup (IF b.err = "keyword" THEN (IF p.err \in KeywordKinds(s, c) THEN {} ELSE {"error-kind"})
        ELSE IF p.err # b.err THEN {"error-kind"} ELSE {})
  \cup (IF b.err = "none" /\ p.err = "none"
          THEN {"slot:" \o n : n \in {m \in ParamNames(s) : ToSet(p.slots[m]) # ExpSlot(s, c, m)}}
               \cup (IF s.va /\ ObsVa(p) # ExpVa(s, c) THEN {"varargs"} ELSE {})
               \cup (IF s.kw /\ ToSet(p.kw) # ExpKw(s, c) THEN {"kwargs"} ELSE {})
               \cup (IF ~s.va /\ p.va # <<>> THEN {"varargs"} ELSE {})
               \cup (IF ~s.kw /\ p.kw # <<>> THEN {"kwargs"} ELSE {})
          ELSE {})

(* spec-computed attribution of a failing call to a documented deviation: "" (none),           *)
(* "posonly", or - in a history - the deviation(s) whose as-coded signature predicts           *)
(* EVERYTHING pytype reported for the call (error presence and every revealed type).           *)
Attribution(cs, k) ==
  LET c == CallOf(cs.calls[k])
      o == cs.calls[k].pt
      m == StageOf(cs, k) IN
  IF cs.kind \in {"stub", "splat"} THEN ""      \* the documented deviations are those of source-defined functions
  ELSE IF DevExplains(SigAt(cs, k), c, o) THEN "posonly"
  ELSE IF m = 0 THEN ""
  \* "kwignored" (a standing known finding) is tried before "dropkw" (repaired in 860f9fd: its key
  \* has status fixed, so a call that ONLY the dropkw deviation explains is reported again)
  ELSE IF PtFails(AfterAs(cs, m, FALSE, TRUE), c, o) = {} THEN "kwignored"
  ELSE IF PtFails(AfterAs(cs, m, TRUE, FALSE), c, o) = {} THEN "dropkw"
  ELSE IF PtFails(AfterAs(cs, m, TRUE, TRUE), c, o) = {} THEN "dropkw+kwignored"
  ELSE ""

CaseBad(cs) ==    \* <<call index, failing clause, documented deviation that explains it or "">>
  IF cs.crash # "" THEN {<<0, "crash", "">>}     \* pytype raised instead of analysing the calls
  ELSE
  UNION {{<<k, f, Attribution(cs, k)>> :
            f \in (IF cs.kind = "stub" THEN ErrFails(SigAt(cs, k), CallOf(cs.calls[k]), cs.calls[k].pt)
                   ELSE IF cs.kind = "splat" THEN SplatFails(SigAt(cs, k), CallOf(cs.calls[k]), cs.calls[k].pt)
                   ELSE PtFails(SigAt(cs, k), CallOf(cs.calls[k]), cs.calls[k].pt))} : k \in DOMAIN cs.calls}
CaseOracle(cs) ==
  (IF HistoryWellFormed(cs) /\ (cs.kind \in {"stub", "splat"} => cs.redefs = <<>>) THEN {} ELSE {<<0, "malformed-history">>})
  \cup UNION {{<<k, f>> : f \in (IF cs.kind = "splat"
                                   THEN SplatPyFails(SigAt(cs, k), CallOf(cs.calls[k]), cs.calls[k].py)
                                   ELSE PyFails(SigAt(cs, k), CallOf(cs.calls[k]), cs.calls[k].py))} : k \in DOMAIN cs.calls}
CaseDiv(cs) ==
  IF cs.crash # "" \/ cs.kind = "splat" THEN {} ELSE
  {k \in DOMAIN cs.calls : ~KindAgrees(SigAt(cs, k), CallOf(cs.calls[k]), cs.calls[k].pt)}

TInit == i = 1 /\ TLCSet(1, FALSE)
TNext == /\ i <= Len(Cases)
         /\ i' = i + 1
         /\ (i' > Len(Cases) => TLCSet(1, TRUE))

(* spec-computed classification of call k: <<error kind, |*va|, |**kw|, deviation applies,    *)
(* number of re-assignments before the call, effect of the last one on this call>>:            *)
(*   "lost"    the call bound before the last re-assignment and now lacks a parameter (it       *)
(*             relies on a default that was removed)                                            *)
(*   "gained"  it lacked a parameter before and binds now (through a default that was added)    *)
(*   "newdef"  it binds before and after and some parameter takes a re-assigned default value   *)
HistEffect(cs, k) ==
  LET m == StageOf(cs, k)
      c == CallOf(cs.calls[k]) IN
  IF m = 0 THEN "" ELSE
  LET p == AfterAs(cs, m - 1, FALSE, FALSE)
      s == AfterAs(cs, m, FALSE, FALSE)
      kp == ErrKind(p, c)
      ks == ErrKind(s, c) IN
  IF kp = "none" /\ ks \in {"missing", "missing_kwonly"} THEN "lost"
  ELSE IF kp \in {"missing", "missing_kwonly"} /\ ks = "none" THEN "gained"
  ELSE IF ks = "none" /\ \E n \in ParamNames(s) :
            Bind(s, c).slots[n][1] = "default" /\ DefClass(s, n) # "D_" \o n THEN "newdef"
  ELSE ""
CaseStat(cs) ==
  [k \in DOMAIN cs.calls |->
     LET s == SigAt(cs, k)
         c == CallOf(cs.calls[k])
         b == Bind(s, c) IN
     <<b.err, IF b.err = "none" THEN Len(b.va) ELSE 0,
       IF b.err = "none" THEN Cardinality(b.kw) ELSE 0, DevApplies(s, c),
       StageOf(cs, k), HistEffect(cs, k),
       \* a splat call: "binds" / "depends" / the cause for which every length fails
       IF cs.kind # "splat" THEN ""
       ELSE IF SplatOutcome(s, c, SplatLen(s)) = "err" THEN SplatCause(s, c, SplatLen(s))
       ELSE SplatOutcome(s, c, SplatLen(s))>>]

Ok == i <= Len(Cases) =>
        /\ PrintT(<<"STAT", ToJson([i |-> i, calls |-> CaseStat(Cases[i])])>>)
        /\ LET o == CaseOracle(Cases[i]) IN o = {} \/ PrintT(<<"ORACLE", ToJson([i |-> i, fails |-> o])>>)
        /\ LET f == CaseBad(Cases[i]) IN f = {} \/ PrintT(<<"BAD", ToJson([i |-> i, fails |-> f])>>)
        /\ LET d == CaseDiv(Cases[i]) IN d = {} \/ PrintT(<<"DIV", ToJson([i |-> i, calls |-> d])>>)

Done == TLCGet(1)
=============================================================================

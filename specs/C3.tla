--------------------------------- MODULE C3 ---------------------------------
(* Class linearisation as a state machine (property C10).                                     *)
(*                                                                                            *)
(* Code modelled: pytype/pytd/mro.py (MergeSequences / MROMerge / _ComputeMRO),               *)
(* pytype/abstract/class_mixin.py compute_mro, pytype/vm_utils.py make_class (mro_error),     *)
(* and the language rule they implement (CPython Objects/typeobject.c mro_implementation).    *)
(*                                                                                            *)
(* A program is a sequence of class statements.  DefineClass(bs, d) starts statement          *)
(* Len(hier)+1 with the written list of bases bs (spellings of earlier *successful*           *)
(* statements, 0 = explicit `object`, repeats allowed, <<>> = no base list; d: see below).    *)
(* The C3 merge then runs as a step machine over                                             *)
(* (seqs, res): Emit moves the first good head to res and strips it from all heads, Fail      *)
(* ends the statement with "order" when no list offers a good head, Finish commits the MRO.   *)
(* A repeated base ends the statement at once with "dup".  Failed statements stay in hier     *)
(* (they are statements of the program, wrapped in try/except TypeError when rendered) but    *)
(* are never offered as bases again.                                                          *)
(*                                                                                            *)
(* Generic bases: a base is offered under every spelling in Spellings (bare, K[int], K[str],  *)
(* K[T]) when the class is generic, and a statement may end its list with Generic[T]          *)
(* (AllowGeneric); the merge and the duplicate test work on the origins (C3Ops).              *)
(*                                                                                            *)
(* Attribute histories (pytype/attribute.py _lookup_from_mro, vm store_attr on a class): a    *)
(* class statement may define the attribute `tag` in its body (AllowDef); between and after   *)
(* class statements Assign(c) is `Kc.tag = <new value>` on an existing class and Read(c, m)   *)
(* reads `tag` through class c (m: "cls" Kc.tag, "old" through an instance made right after   *)
(* the class statement, "new" Kc().tag, "all" the three of them).  defs carries which classes *)
(* define `tag` NOW; every Read records the definition the language finds: the first class    *)
(* of the MRO of c whose dictionary has `tag` at that moment.  hist is the program so far.    *)
EXTENDS C3Ops, Json, TLC

CONSTANTS MaxClasses,   \* number of class statements in a hierarchy
          MaxBases,     \* longest list of bases
          AllowObject,  \* BOOLEAN: `object` may be written explicitly in a list of bases
          MaxFail,      \* at most this many failing statements (MaxClasses: unrestricted)
          Export,       \* BOOLEAN: print every finished hierarchy as a CASE line
          Spellings,    \* subset of 0..3 containing 0: spellings offered for a generic base
          AllowGeneric, \* BOOLEAN: a statement may list Generic[T] (last)
          AllowDef,     \* BOOLEAN: a class body may define `tag`
          MaxEvents,    \* number of attribute events (Assign / Read) in a history
          Modes         \* subset of {"cls", "old", "new", "all"}: how Read reads

VARIABLES hier,   \* sequence of base lists, one per statement so far
          lin,    \* sequence of results [st, mro], same length as hier when pc = "idle"
          pc,     \* "idle" | "merge" | "done"
          seqs,   \* the lists still to be merged
          res,    \* the linearisation built so far (starts with the class itself)
          defs,   \* defs[c]: marker of `tag` in the dictionary of class c now (0: none)
          hist    \* the program so far: class statements and attribute events, in order

vars == <<hier, lin, pc, seqs, res, defs, hist>>

OkClasses == {c \in DOMAIN lin : lin[c].st = "ok"}
SpellingsOf(c) == IF GenericStmt(hier[c]) THEN Spellings ELSE {0}
Pool == UNION {{c + 100 * s : s \in SpellingsOf(c)} : c \in OkClasses}
        \cup (IF AllowObject THEN {OBJ} ELSE {})
NFail == Cardinality({c \in DOMAIN lin : lin[c].st # "ok"})
NEv == Cardinality({s \in DOMAIN hist : hist[s].op # "class"})
Step(op, bs, d, c, m, exp, by) ==
  [op |-> op, bases |-> bs, def |-> d, c |-> c, m |-> m, exp |-> exp, by |-> by]

RECURSIVE SeqsOver(_, _)
SeqsOver(S, n) ==    \* all sequences over S of length <= n
  IF n = 0 THEN {<<>>}
  ELSE LET shorter == SeqsOver(S, n - 1) IN
       shorter \cup {Append(s, x) : s \in {t \in shorter : Len(t) = n - 1}, x \in S}

(* the written base lists on offer: spellings of earlier classes, optionally Generic[T] last *)
BaseLists ==
  LET plain == SeqsOver(Pool, MaxBases) IN
  plain \cup (IF AllowGeneric THEN {Append(s, GEN) : s \in plain} ELSE {})

Init == /\ hier = <<>> /\ lin = <<>> /\ pc = "idle" /\ seqs = <<>> /\ res = <<>>
        /\ defs = <<>> /\ hist = <<>>

(* class statement with written bases bs; d: the body defines `tag` *)
DefineClass(bs, d) ==
  /\ pc = "idle" /\ Len(hier) < MaxClasses
  /\ hier' = Append(hier, bs)
  /\ hist' = Append(hist, Step("class", bs, d, 0, "", 0, 0))
  /\ IF HasDup(EffBases(bs))
       THEN /\ lin' = Append(lin, ERRDUP)
            /\ defs' = Append(defs, 0)
            /\ UNCHANGED <<pc, seqs, res>>
       ELSE /\ pc' = "merge"
            /\ seqs' = MergeInput(lin, bs)
            /\ res' = <<Len(hier) + 1>>
            /\ defs' = Append(defs, IF d THEN Len(hist) + 1 ELSE 0)
            /\ UNCHANGED lin

(* `Kc.tag = <value with marker Len(hist)+1>` on an existing class *)
Assign(c) ==
  /\ pc = "idle" /\ c \in OkClasses
  /\ defs' = [defs EXCEPT ![c] = Len(hist) + 1]
  /\ hist' = Append(hist, Step("assign", <<>>, FALSE, c, "", 0, 0))
  /\ UNCHANGED <<hier, lin, pc, seqs, res>>

(* read `tag` through class c: answered by the first class of the MRO that defines it now *)
Read(c, m) ==
  /\ pc = "idle" /\ c \in OkClasses
  /\ hist' = Append(hist, Step("read", <<>>, FALSE, c, m,
                               ReadExp(lin[c].mro, defs), ReadBy(lin[c].mro, defs)))
  /\ UNCHANGED <<hier, lin, pc, seqs, res, defs>>

Emit ==
  /\ pc = "merge" /\ ~AllEmpty(seqs) /\ Candidates(seqs) # {}
  /\ LET x == Head(seqs[MinOf(Candidates(seqs))]) IN
       /\ res' = Append(res, x)
       /\ seqs' = Strip(seqs, x)
  /\ UNCHANGED <<hier, lin, pc, defs, hist>>

Fail ==
  /\ pc = "merge" /\ ~AllEmpty(seqs) /\ Candidates(seqs) = {}
  /\ lin' = Append(lin, ERRORDER)
  /\ pc' = "idle" /\ seqs' = <<>> /\ res' = <<>>
  /\ defs' = [defs EXCEPT ![Len(hier)] = 0]      \* the statement raised: no class, no dictionary
  /\ UNCHANGED <<hier, hist>>

Finish ==
  /\ pc = "merge" /\ AllEmpty(seqs)
  /\ lin' = Append(lin, [st |-> "ok", mro |-> res])
  /\ pc' = "idle" /\ seqs' = <<>> /\ res' = <<>>
  /\ UNCHANGED <<hier, defs, hist>>

(* single successor of a complete hierarchy, so that -simulate prints exactly one case *)
End == /\ pc = "idle" /\ Len(hier) = MaxClasses /\ NEv = MaxEvents
       /\ pc' = "done" /\ UNCHANGED <<hier, lin, seqs, res, defs, hist>>

(* a history has exactly MaxEvents events, at any place after the first class statement; the *)
(* last event is a Read (an assignment nobody reads afterwards is not observable)             *)
Next ==
  \/ \E bs \in BaseLists, d \in (IF AllowDef THEN BOOLEAN ELSE {FALSE}) :
        /\ (NFail < MaxFail \/ Statement(lin, bs).st = "ok")
        /\ DefineClass(bs, d)
  \/ \E c \in OkClasses : NEv + 1 < MaxEvents /\ Assign(c)
  \/ \E c \in OkClasses, m \in Modes : NEv < MaxEvents /\ Read(c, m)
  \/ Emit \/ Fail \/ Finish \/ End

Spec == Init /\ [][Next]_vars

-----------------------------------------------------------------------------
(* Invariants *)

TypeOK ==
  /\ pc \in {"idle", "merge", "done"}
  /\ Len(hier) <= MaxClasses
  /\ Len(lin) = (IF pc = "merge" THEN Len(hier) - 1 ELSE Len(hier))
  /\ \A c \in DOMAIN lin : lin[c].st \in {"ok", "dup", "order"}
  /\ Len(defs) = Len(hier)
  /\ \A c \in DOMAIN defs : defs[c] \in 0 .. Len(hist)
  /\ Len(hier) = StmtOfStep(hist, Len(hist))
  /\ NEv <= MaxEvents

(* the step machine computes the function Lin of C3Ops (which the trace module uses) *)
MachineIsFunction == pc # "merge" => (lin = Lin(hier) /\ WellFormed(hier, lin))

(* the declarative C3 laws hold for every finished statement of every reachable hierarchy *)
LawsHold == pc # "merge" => Laws(hier, lin)

(* while a merge is running: nothing is lost, nothing is duplicated, emitted elements never   *)
(* reappear, and the partial result already respects every constraint among emitted elements  *)
MergeInv ==
  pc = "merge" =>
    LET c == Len(hier)
        rest == UNION {ToSet(seqs[k]) : k \in DOMAIN seqs} IN
    /\ res[1] = c /\ ~HasDup(res)
    /\ ToSet(res) \cap rest = {}
    /\ ToSet(res) \cup rest = {c} \cup Ancestors(hier, c)
    /\ \A pr \in StrictBefore(lin, hier[c]) :
         pr[2] \in ToSet(res) => (pr[1] \in ToSet(res) /\ Pos(pr[1], res) < Pos(pr[2], res))

(* an attribute defined by every class is always found in the class itself; defined by one    *)
(* ancestor only, it is found there (sanity of FirstDefiner, used by the trace module)        *)
LookupSane ==
  pc # "merge" =>
    \A c \in OkClasses :
      /\ FirstDefiner(lin[c].mro, 1 .. Len(hier)) = c
      /\ \A a \in ToSet(lin[c].mro) \ {OBJ} : FirstDefiner(lin[c].mro, {a}) = a
      /\ \A d \in (1 .. Len(hier)) \ ToSet(lin[c].mro) : FirstDefiner(lin[c].mro, {d}) = 0

(* the state carried along (defs) is the function of the recorded history; every recorded   *)
(* read was answered by the first class of the MRO whose dictionary had `tag` at that moment  *)
(* (stated on hist alone), by a class that exists, with the marker of its latest definition   *)
HistInv ==
  pc # "merge" =>
    /\ \A k \in DOMAIN defs :
          defs[k] = (IF lin[k].st = "ok" THEN MarkerAt(hist, k, Len(hist) + 1) ELSE 0)
    /\ \A s \in DOMAIN hist : hist[s].op = "read" =>
          LET r == hist[s]
              m == lin[r.c].mro IN
          /\ lin[r.c].st = "ok"
          /\ r.by = 0 => r.exp = 0 /\ \A q \in DOMAIN m : m[q] \in {OBJ, GEN} \/ MarkerAt(hist, m[q], s) = 0
          /\ r.by # 0 =>
                /\ r.by \in ToSet(m) \ {OBJ, GEN}
                /\ r.exp = MarkerAt(hist, r.by, s) /\ r.exp # 0
                /\ \A q \in 1 .. (Pos(r.by, m) - 1) : MarkerAt(hist, m[q], s) = 0
    /\ \A s \in DOMAIN hist : hist[s].op = "assign" => lin[hist[s].c].st = "ok"

ExportInv ==
  (Export /\ pc = "done") =>
     PrintT(<<"CASE", ToJson([bases |-> hier, lin |-> lin, prog |-> hist])>>)
=============================================================================

--------------------------------- MODULE C3 ---------------------------------
(* Class linearisation as a state machine (property C10).                                     *)
(*                                                                                            *)
(* Code modelled: pytype/pytd/mro.py (MergeSequences / MROMerge / _ComputeMRO),               *)
(* pytype/abstract/class_mixin.py compute_mro, pytype/vm_utils.py make_class (mro_error),     *)
(* and the language rule they implement (CPython Objects/typeobject.c mro_implementation).    *)
(*                                                                                            *)
(* A program is a sequence of class statements.  DefineClass(bs) starts statement Len(hier)+1 *)
(* with the list of bases bs (ids of earlier *successful* statements, 0 = explicit `object`,  *)
(* repeats allowed, <<>> = no base list).  The C3 merge then runs as a step machine over      *)
(* (seqs, res): Emit moves the first good head to res and strips it from all heads, Fail      *)
(* ends the statement with "order" when no list offers a good head, Finish commits the MRO.   *)
(* A repeated base ends the statement at once with "dup".  Failed statements stay in hier     *)
(* (they are statements of the program, wrapped in try/except TypeError when rendered) but    *)
(* are never offered as bases again.                                                          *)
EXTENDS C3Ops, Json, TLC

CONSTANTS MaxClasses,   \* number of class statements in a hierarchy
          MaxBases,     \* longest list of bases
          AllowObject,  \* BOOLEAN: `object` may be written explicitly in a list of bases
          MaxFail,      \* at most this many failing statements (MaxClasses: unrestricted)
          Export        \* BOOLEAN: print every finished hierarchy as a CASE line

VARIABLES hier,   \* sequence of base lists, one per statement so far
          lin,    \* sequence of results [st, mro], same length as hier when pc = "idle"
          pc,     \* "idle" | "merge" | "done"
          seqs,   \* the lists still to be merged
          res     \* the linearisation built so far (starts with the class itself)

vars == <<hier, lin, pc, seqs, res>>

OkClasses == {c \in DOMAIN lin : lin[c].st = "ok"}
Pool == OkClasses \cup (IF AllowObject THEN {OBJ} ELSE {})
NFail == Cardinality({c \in DOMAIN lin : lin[c].st # "ok"})

RECURSIVE SeqsOver(_, _)
SeqsOver(S, n) ==    \* all sequences over S of length <= n
  IF n = 0 THEN {<<>>}
  ELSE LET shorter == SeqsOver(S, n - 1) IN
       shorter \cup {Append(s, x) : s \in {t \in shorter : Len(t) = n - 1}, x \in S}

Init == hier = <<>> /\ lin = <<>> /\ pc = "idle" /\ seqs = <<>> /\ res = <<>>

DefineClass(bs) ==
  /\ pc = "idle" /\ Len(hier) < MaxClasses
  /\ hier' = Append(hier, bs)
  /\ IF HasDup(EffBases(bs))
       THEN /\ lin' = Append(lin, ERRDUP)
            /\ UNCHANGED <<pc, seqs, res>>
       ELSE /\ pc' = "merge"
            /\ seqs' = MergeInput(lin, bs)
            /\ res' = <<Len(hier) + 1>>
            /\ UNCHANGED lin

Emit ==
  /\ pc = "merge" /\ ~AllEmpty(seqs) /\ Candidates(seqs) # {}
  /\ LET x == Head(seqs[MinOf(Candidates(seqs))]) IN
       /\ res' = Append(res, x)
       /\ seqs' = Strip(seqs, x)
  /\ UNCHANGED <<hier, lin, pc>>

Fail ==
  /\ pc = "merge" /\ ~AllEmpty(seqs) /\ Candidates(seqs) = {}
  /\ lin' = Append(lin, ERRORDER)
  /\ pc' = "idle" /\ seqs' = <<>> /\ res' = <<>>
  /\ UNCHANGED hier

Finish ==
  /\ pc = "merge" /\ AllEmpty(seqs)
  /\ lin' = Append(lin, [st |-> "ok", mro |-> res])
  /\ pc' = "idle" /\ seqs' = <<>> /\ res' = <<>>
  /\ UNCHANGED hier

(* single successor of a complete hierarchy, so that -simulate prints exactly one case *)
End == pc = "idle" /\ Len(hier) = MaxClasses /\ pc' = "done" /\ UNCHANGED <<hier, lin, seqs, res>>

Next ==
  \/ \E bs \in SeqsOver(Pool, MaxBases) :
        /\ (NFail < MaxFail \/ Statement(lin, bs).st = "ok")
        /\ DefineClass(bs)
  \/ Emit \/ Fail \/ Finish \/ End

Spec == Init /\ [][Next]_vars

-----------------------------------------------------------------------------
(* Invariants *)

TypeOK ==
  /\ pc \in {"idle", "merge", "done"}
  /\ Len(hier) <= MaxClasses
  /\ Len(lin) = (IF pc = "merge" THEN Len(hier) - 1 ELSE Len(hier))
  /\ \A c \in DOMAIN lin : lin[c].st \in {"ok", "dup", "order"}

(* the step machine computes the function Lin of C3Ops (which the trace module uses) *)
MachineIsFunction == pc # "merge" => (lin = Lin(hier) /\ WellFormed(hier, lin))

(* the declarative C3 laws hold for every finished statement of every reachable hierarchy *)
LawsHold == pc # "merge" => Laws(hier, lin)

(* while a merge is running: nothing is lost, nothing is duplicated, emitted elements never   *)
(* reappear, and the partial result already respects every constraint among emitted elements  *)
MergeInv ==
  pc = "merge" =>
    LET c == Len(hier)
        rest == UNION {ToSet(seqs[k]) : k \in DOMAIN seqs} IN
    /\ res[1] = c /\ ~HasDup(res)
    /\ ToSet(res) \cap rest = {}
    /\ ToSet(res) \cup rest = {c} \cup Ancestors(hier, c)
    /\ \A pr \in StrictBefore(lin, hier[c]) :
         pr[2] \in ToSet(res) => (pr[1] \in ToSet(res) /\ Pos(pr[1], res) < Pos(pr[2], res))

(* an attribute defined by every class is always found in the class itself; defined by one    *)
(* ancestor only, it is found there (sanity of FirstDefiner, used by the trace module)        *)
LookupSane ==
  pc # "merge" =>
    \A c \in OkClasses :
      /\ FirstDefiner(lin[c].mro, 1 .. Len(hier)) = c
      /\ \A a \in ToSet(lin[c].mro) \ {OBJ} : FirstDefiner(lin[c].mro, {a}) = a
      /\ \A d \in (1 .. Len(hier)) \ ToSet(lin[c].mro) : FirstDefiner(lin[c].mro, {d}) = 0

ExportInv ==
  (Export /\ pc = "done") => PrintT(<<"CASE", ToJson([bases |-> hier, lin |-> lin])>>)
=============================================================================

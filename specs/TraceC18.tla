------------------------------ MODULE TraceC18 ------------------------------
(* Code -> spec for C18.  The driver executed, on the real pytype.rewrite.flow classes,       *)
(*   - every application of conditions.Not/And/Or exported by FlowState's C machine,          *)
(*   - every transition (and random long histories) of FlowState's S machine on two real      *)
(*     BlockState objects, and Variable.with_condition on the variables that occur,           *)
(*   - (optionally) the operations performed by the repository's own flow tests,              *)
(* and recorded the STRUCTURE of the real objects before and after each operation.            *)
(*                                                                                            *)
(* Trace file (one JSON object), everything hash-consed:                                      *)
(*   conds   conds[id] = [k, a, cs]  (cs = sequence of ids of earlier entries)                *)
(*   states  states[id] = [loc |-> sequence of [n, name, b |-> sequence of [v, c]],           *)
(*                         cond |-> id, lwbc |-> sequence of names]                           *)
(*   cases   [kind |-> "cond", op, args, res]          res = conditions.Op(args...)            *)
(*           [kind |-> "varwith", var, c, res]         res = var.with_condition(c)            *)
(*           [kind |-> "with", s, c, r]                r = s.with_condition(c)                *)
(*           [kind |-> "merge", x, y, r]               r = x.merge_into(y)                    *)
(*           [kind |-> "store", s, n, var, r]          s.store_local(n, var) gave r           *)
(*           [kind |-> "load", s, n, res]              res = s.load_local(n)                  *)
(*           [kind |-> "copy", s, r]                   r = s.merge_into(None)                 *)
(*           [kind |-> "new", locals, c, r]            r = BlockState(locals, c)              *)
(*         every case has exc ("" or the repr of an escaped exception) and strict (TRUE for   *)
(*         states built through the operations; FALSE for states of foreign tests, where      *)
(*         the laws are judged only if the inputs satisfy the auxiliary invariant).           *)
(*                                                                                            *)
(* Verdicts (BAD lines, total):                                                               *)
(*   exc       an exception escaped                                                           *)
(*   meaning   Not/And/Or result not equivalent to the connective over the real arguments     *)
(*   varwith   a binding is not restricted by exactly the added condition                     *)
(*   with      Vals(r, n, s) # IF s |= c THEN Vals(s, n, s) ELSE {}                           *)
(*   merge     Vals(r, n, s) # Vals(x, n, s) \cup Vals(y, n, s)                               *)
(* DIV lines (informational): the real post-state differs structurally from the spec's        *)
(* operation applied to the real pre-state; the block conditions do not compose; the          *)
(* auxiliary invariant does not hold of a real state; SKIP: law not judged (precondition).    *)
EXTENDS FlowState, IOUtils, TLCExt

TF == JsonDeserialize(IOEnv.TRACE_FILE)
Conds == TF.conds
States == TF.states
Cases == TF.cases

VARIABLE i

RECURSIVE ToCond(_)
ToCond(id) == LET n == Conds[id] IN
  [k |-> n.k, a |-> n.a, cs |-> {ToCond(n.cs[j]) : j \in DOMAIN n.cs}]
CondTab == [id \in DOMAIN Conds |-> ToCond(id)]     \* lazy: only the entries used are built

VarOf(jv) == [b |-> [j \in DOMAIN jv.b |-> Bnd(jv.b[j].v, CondTab[jv.b[j].c])], name |-> jv.name]
StateOf(js) ==
  [loc |-> [n \in {js.loc[j].n : j \in DOMAIN js.loc} |->
              VarOf(js.loc[CHOOSE j \in DOMAIN js.loc : js.loc[j].n = n])],
   cond |-> CondTab[js.cond],
   lwbc |-> ToSet(js.lwbc)]
StateTab == [id \in DOMAIN States |-> StateOf(States[id])]

Pre(S) == ExplicitImpliesBlock(S) /\ DistinctValues(S)

Fails(c) ==
  IF c.exc # "" THEN {"exc"}
  ELSE CASE c.kind = "cond" ->
              IF ConnMeaning(c.op, CondTab[c.res], [j \in DOMAIN c.args |-> CondTab[c.args[j]]])
                THEN {} ELSE {"meaning"}
         [] c.kind = "varwith" ->
              IF VarWithLaw(VarOf(c.var), CondTab[c.c], VarOf(c.res)) THEN {} ELSE {"varwith"}
         [] c.kind = "with" ->
              LET S == StateTab[c.s] IN
              IF (c.strict \/ Pre(S)) /\ ~WithLaw(S, CondTab[c.c], StateTab[c.r])
                THEN {"with"} ELSE {}
         [] c.kind = "merge" ->
              LET X == StateTab[c.x]
                  Y == StateTab[c.y] IN
              IF (c.strict \/ (Pre(X) /\ Pre(Y))) /\ ~MergeLaw(X, Y, StateTab[c.r])
                THEN {"merge"} ELSE {}
         [] OTHER -> {}

(* conformance of the real step with the spec's action, and the auxiliary laws *)
Notes(c) ==
  IF c.exc # "" THEN {}
  ELSE CASE c.kind = "cond" ->
              IF CondTab[c.res] # MkC(c.op, [j \in DOMAIN c.args |-> CondTab[c.args[j]]])
                THEN {"structure"} ELSE {}
         [] c.kind = "varwith" ->
              IF VarOf(c.res) # VarWith(VarOf(c.var), CondTab[c.c]) THEN {"structure"} ELSE {}
         [] c.kind = "with" ->
              LET S == StateTab[c.s]
                  R == StateTab[c.r] IN
              (IF R # WithCondition(S, CondTab[c.c]) THEN {"structure"} ELSE {})
              \cup (IF ~WithCondLaw(S, CondTab[c.c], R) THEN {"blockcond"} ELSE {})
              \cup (IF Pre(S) /\ ~ExplicitImpliesBlock(R) THEN {"aux"} ELSE {})
              \cup (IF ~c.strict /\ ~Pre(S) THEN {"skip"} ELSE {})
         [] c.kind = "merge" ->
              LET X == StateTab[c.x]
                  Y == StateTab[c.y]
                  R == StateTab[c.r] IN
              (IF R # MergeInto(X, Y) THEN {"structure"} ELSE {})
              \cup (IF ~MergeCondLaw(X, Y, R) THEN {"blockcond"} ELSE {})
              \cup (IF Pre(X) /\ Pre(Y) /\ ~ExplicitImpliesBlock(R) THEN {"aux"} ELSE {})
              \cup (IF ~c.strict /\ ~(Pre(X) /\ Pre(Y)) THEN {"skip"} ELSE {})
         [] c.kind = "store" ->
              LET S == StateTab[c.s]
                  R == StateTab[c.r] IN
              (IF R # StoreLocal(S, c.n, VarOf(c.var)) THEN {"structure"} ELSE {})
              \cup (IF ExplicitImpliesBlock(S) /\ ~ExplicitImpliesBlock(R) THEN {"aux"} ELSE {})
         [] c.kind = "load" ->
              IF VarOf(c.res) # LoadLocal(StateTab[c.s], c.n) THEN {"structure"} ELSE {}
         [] c.kind = "copy" ->
              IF StateTab[c.r] # StateTab[c.s] THEN {"structure"} ELSE {}
         [] c.kind = "new" ->
              LET L == [n \in {c.locals[j].n : j \in DOMAIN c.locals} |->
                          VarOf(c.locals[CHOOSE j \in DOMAIN c.locals : c.locals[j].n = n])] IN
              IF StateTab[c.r] # Construct(L, CondTab[c.c]) THEN {"structure"} ELSE {}
         [] OTHER -> {}

WellFormed ==
  /\ \A id \in DOMAIN Conds : /\ Conds[id].k \in {"true", "false", "atom", "not", "and", "or"}
                              /\ \A j \in DOMAIN Conds[id].cs : Conds[id].cs[j] < id
                              /\ (Conds[id].k = "atom" => Conds[id].a \in Atoms)
                              /\ (Conds[id].k = "not" => Len(Conds[id].cs) = 1)

TInit == /\ i = 1 /\ TLCSet(1, FALSE)
         /\ A = Empty /\ B = Empty /\ hist = <<>> /\ cop = "const" /\ cargs = <<>>
TNext == /\ i <= Len(Cases)
         /\ i' = i + 1
         /\ UNCHANGED vars
         /\ (i' > Len(Cases) => TLCSet(1, TRUE))

Ok == /\ (i = 1 => (WellFormed \/ PrintT(<<"MACH", ToJson([what |-> "trace file not well-formed"])>>)))
      /\ i <= Len(Cases) =>
           /\ LET f == Fails(Cases[i]) IN
                f = {} \/ PrintT(<<"BAD", ToJson([i |-> i, fails |-> f])>>)
           /\ LET d == Notes(Cases[i]) IN
                d = {} \/ PrintT(<<"DIV", ToJson([i |-> i, notes |-> d])>>)

Done == TLCGet(1)
=============================================================================

------------------------------ MODULE TraceC16 ------------------------------
(* Code -> spec for C16.  Every case is something the real code produced:                      *)
(*  k = "code"  : one code object that went through blocks.process_code: the opcode list       *)
(*                (build_opcodes + add_pop_block_targets), the partition handed to             *)
(*                cfg_utils.order_nodes (captured by a harness-side wrapper), Block.outgoing    *)
(*                and the order it returned (= OrderedCode.order).                             *)
(*  k = "order" : cfg_utils.order_nodes run on fake node objects for a digraph exported by      *)
(*                Blocks.tla.                                                                   *)
(* Verdict (BAD lines) = clauses of WellFormed (BlocksOps.tla) that fail.  The edge relation    *)
(* that defines "reachable"/"predecessor" is the one the SPEC derives from the instruction      *)
(* attributes (Graph) whenever the spec's partition equals the recorded one; recorded           *)
(* Block.outgoing otherwise.  DIV lines (informational) = the operational model (Graph,         *)
(* PopTargets, OrderNodes) predicts something else than the code did.                           *)
EXTENDS BlocksOps, Json, IOUtils, TLCExt

Cases == JsonDeserialize(IOEnv.TRACE_FILE)

CONSTANTS MaxOrderModel,   \* evaluate OrderNodes (model) only for graphs with at most that many blocks
          MaxPopModel      \* evaluate PopTargets (model) only for streams with at most that many instructions

VARIABLE i

PairSet(s) == {<<s[x][1], s[x][2]>> : x \in DOMAIN s}

Judge(c) ==
  IF c.k = "order" THEN
    LET E == PairSet(c.edges)
        fails == OrderFails(c.nb, E, c.order)
        pred == OrderNodes(c.nb, E, c.ids)
    IN [fails |-> fails \cup (IF OrderAssert(c.nb, E, c.order) THEN {} ELSE {"order-assert"}),
        tags |-> {},
        div |-> IF pred = c.order THEN {} ELSE {"order-model"}]
  ELSE IF c.k = "order-raised" THEN [fails |-> {"order-raised"}, tags |-> {}, div |-> {}]
  ELSE IF c.k = "raised" THEN
    \* the real add_pop_block_targets / compute_order raised on a hand-assembled list: not a
    \* CPython-produced stream, so only model conformance (does the model predict a raise?)
    LET r == PopTargets(c.ins)
        insB == [p \in DOMAIN c.ins |-> [c.ins[p] EXCEPT ![6] = r.bt[p]]]
        predicted == r.crash \/ Graph(insB, [p \in DOMAIN c.ins |-> Tgt(c.ins[p])]).crash
    IN [fails |-> {}, tags |-> {}, div |-> IF predicted THEN {} ELSE {"raise-not-predicted"}]
  ELSE
    LET ins == c.ins
        n == Len(ins)
        re == PairSet(c.re)
        t0 == [p \in 1 .. n |-> IF \E e \in re : e[1] = p
                                  THEN (CHOOSE e \in re : e[1] = p)[2] ELSE Tgt(ins[p])]
        g == Graph(ins, t0)
        nb == Len(c.blocks)
        recE == PairSet(c.edges)
        edgesValid == \A e \in recE : e[1] \in 1 .. nb /\ e[2] \in 1 .. nb
        same == ~g.crash /\ g.blocks = c.blocks
        E == IF same THEN g.edges ELSE recE
        elided == IF g.crash THEN {} ELSE g.removed \cup g.popped
        retgt == IF g.crash THEN {} ELSE {p \in 1 .. n : g.tgt[p] # t0[p]}
        fails == WFFails(ins, c.blocks, E, c.order, elided, retgt)
                   \cup (IF edgesValid THEN {} ELSE {"edges-valid"})
        \* discriminator for the one documented deviation: the merge step copies the block of an
        \* END_ASYNC_FOR into EVERY block whose JUMP_BACKWARD belongs to that loop
        dups == {p \in 1 .. n : Occurrences(c.blocks, p) > 1}
        mergedIn == UNION {SetOf(c.blocks[b]) : b \in (IF same THEN g.merged ELSE {})}
        tags == IF "once" \in fails /\ same /\ dups # {} /\ dups \subseteq mergedIn
                     /\ Cardinality({p \in 1 .. n : Eaft(ins[p]) > 0}) > Cardinality({Eaft(ins[p]) : p \in 1 .. n} \ {0})
                  THEN {"dup-by-anext-merge"} ELSE {}
        ins0 == IF re = {} THEN ins ELSE [p \in 1 .. n |-> [ins[p] EXCEPT ![4] = t0[p]]]
        pt == PopTargets(ins0)
        div == (IF g.crash THEN {"crash-model"} ELSE {})
               \cup (IF ~g.crash /\ ~same THEN {"split-model"} ELSE {})
               \cup (IF same /\ g.edges # recE THEN {"edges-model"} ELSE {})
               \cup (IF ~g.crash /\ \E p \in 1 .. n : g.tgt[p] # Tgt(ins[p]) THEN {"tgt-model"} ELSE {})
               \cup (IF n <= MaxPopModel /\ (pt.crash \/ \E p \in 1 .. n : pt.bt[p] # Bt(ins[p]))
                       THEN {"bt-model"} ELSE {})
               \cup (IF ~g.crash /\ same /\ g.ids # c.ids THEN {"ids-model"} ELSE {})
               \cup (IF edgesValid /\ nb <= MaxOrderModel /\ Len(c.ids) = nb /\ OrderNodes(nb, recE, c.ids) # c.order
                       THEN {"order-model"} ELSE {})
    IN [fails |-> fails, tags |-> tags, div |-> div]

TInit == i = 1 /\ TLCSet(1, FALSE)
TNext == /\ i <= Len(Cases)
         /\ i' = i + 1
         /\ (i' > Len(Cases) => TLCSet(1, TRUE))

Ok == i <= Len(Cases) =>
        LET j == Judge(Cases[i]) IN
          /\ j.fails = {} \/ PrintT(<<"BAD", ToJson([i |-> i, fails |-> j.fails, tags |-> j.tags])>>)
          /\ j.div = {} \/ PrintT(<<"DIV", ToJson([i |-> i, div |-> j.div])>>)

Done == TLCGet(1)
=============================================================================

----------------------------- MODULE StubWorld -----------------------------
(* C06, the multi-module part: generator of WORLDS (see StubImport.tla, section WORLDS).        *)
(* A world is built by the lifecycle's own steps - a module is opened, imports are added to it   *)
(* (AddImport), it is closed and analysed, the next one may import it (CloseModule), the last    *)
(* one is handed to the reader (Finish) - or, for the family of generic classes, by declaring    *)
(* the type parameters of a class one by one (AddParam) and placing its producers (Place).       *)
(* TLC enumerates (or, for the wide constants, simulates) all worlds within the constants and    *)
(* exports each finished world with the reads the spec derives for its reader (ReadsOf).         *)
(*                                                                                              *)
(* Family "dag": NUp upstream modules m1..mNUp over the fixture modules c1, c2.  Module k may     *)
(* import the fixtures and m1..m(k-1), each at most once, plainly or under an alias name from     *)
(* AliasNames (distinct inside one module, so alias names COLLIDE ACROSS modules), and exposes    *)
(* the imported module's class as a variable, a function result or a method result of its own     *)
(* class T.  Every module after the first imports at least one earlier upstream module.           *)
(* Family "gen": class P(Generic[...]) over MinParams..MaxParams of the type variables TVarNames in *)
(* EVERY declaration order, attributes typed by the parameters in the shapes AttrShapes.          *)
(* Family "nest": NESTED classes (m1.Outer.Inner, see StubImport!NestCT): the last module's uses of  *)
(* the nested class are declared one by one (AddUse: every subset of NestKinds of at least MinUses  *)
(* elements, each once - in the order of KindOrder) and then the last module is placed             *)
(* (PlaceNest: m1 itself, or m2 importing m1 plainly / under an alias).                             *)
EXTENDS StubImport, Json

CONSTANTS Family,       \* "dag" | "gen"
          NUp,          \* dag: number of upstream modules (2 or 3)
          MinImpI, MaxImpI,   \* dag: imports of a module that is not the last
          MinImpL, MaxImpL,   \* dag: imports of the last module
          AliasNames,   \* dag: alias names besides the plain import
          UsesInner, UsesLast,  \* dag: subsets of {"var", "fn", "meth"}
          FixClasses,   \* dag: subset of {"Cfg", "Own"}
          FirstTargets, \* dag: what m1 may import (the fixtures are mirror images of each other:
                        \*      the quick tier enumerates one half of the c1 <-> c2 symmetry)
          TVarNames, MinParams, MaxParams, AttrShapes, Locs, Subs,  \* gen
          NestKinds,    \* nest: subset of {"var", "fn", "ann", "hold", "sub", "kcls"} (KindOrder)
          NestLocs, MinUses   \* nest: subset of {"same", "plain", "alias"}; least number of uses

VARIABLES mods, gp, gs, gloc, gsub, done
vars == <<mods, gp, gs, gloc, gsub, done>>

Cur == Len(mods)
Targets(k) == IF k = 1 THEN FirstTargets ELSE Fixtures \cup {UpName(j) : j \in 1 .. k - 1}
UsedT(m) == {m[x].t : x \in DOMAIN m}
UsedA(m) == {m[x].a : x \in DOMAIN m} \ {""}
CapOf(k) == IF k = NUp THEN MaxImpL ELSE MaxImpI
MinOf(k) == IF k = NUp THEN MinImpL ELSE MinImpI
Connected(k) == k = 1 \/ \E x \in DOMAIN mods[k] : mods[k][x].t \notin Fixtures
GenVars == <<gp, gs, gloc, gsub>>

AddImport ==
  /\ Family = "dag" /\ ~done /\ Len(mods[Cur]) < CapOf(Cur)
  /\ \E t \in Targets(Cur) \ UsedT(mods[Cur]), a \in ({""} \cup AliasNames) \ UsedA(mods[Cur]),
        u \in (IF Cur = NUp THEN UsesLast ELSE UsesInner), c \in FixClasses :
       /\ (t \notin Fixtures => c = "Cfg")
       \* (the last free slot of a module that imports no earlier upstream module yet goes to one)
       /\ (Cur > 1 /\ Len(mods[Cur]) + 1 = CapOf(Cur) /\ ~Connected(Cur) => t \notin Fixtures)
       /\ mods' = [mods EXCEPT ![Cur] = Append(@, [t |-> t, a |-> a, u |-> u, c |-> c])]
  /\ UNCHANGED <<GenVars, done>>

CloseModule ==
  /\ Family = "dag" /\ ~done /\ Cur < NUp /\ Len(mods[Cur]) >= MinOf(Cur) /\ Connected(Cur)
  /\ mods' = Append(mods, <<>>)
  /\ UNCHANGED <<GenVars, done>>

Finish ==
  /\ Family = "dag" /\ ~done /\ Cur = NUp /\ Len(mods[Cur]) >= MinOf(Cur) /\ Connected(Cur)
  /\ done' = TRUE /\ UNCHANGED <<mods, GenVars>>

AddParam ==
  /\ Family = "gen" /\ ~done /\ Len(gp) < MaxParams
  /\ \E v \in TVarNames \ SeqToSet(gp), sh \in AttrShapes :
       gp' = Append(gp, v) /\ gs' = Append(gs, sh)
  /\ UNCHANGED <<mods, gloc, gsub, done>>

Place ==
  /\ Family = "gen" /\ ~done /\ Len(gp) >= MinParams
  /\ \E l \in Locs, s \in Subs : gloc' = l /\ gsub' = s
  /\ done' = TRUE /\ UNCHANGED <<mods, gp, gs>>

(* (gp holds the uses declared so far; a use is appended only behind the uses that precede it in   *)
(* KindOrder, so every subset is built exactly once)                                               *)
KindOrder == <<"var", "fn", "ann", "hold", "sub", "kcls">>
KindIx(u) == CHOOSE x \in DOMAIN KindOrder : KindOrder[x] = u
AddUse ==
  /\ Family = "nest" /\ ~done
  /\ \E x \in DOMAIN KindOrder :
       /\ KindOrder[x] \in NestKinds /\ (gp # <<>> => KindIx(gp[Len(gp)]) < x)
       /\ gp' = Append(gp, KindOrder[x])
  /\ UNCHANGED <<mods, gs, gloc, gsub, done>>

PlaceNest ==
  /\ Family = "nest" /\ ~done /\ Len(gp) >= MinUses
  /\ \E l \in NestLocs : gloc' = l
  /\ done' = TRUE /\ UNCHANGED <<mods, gp, gs, gsub>>

Init ==
  /\ mods = IF Family = "dag" THEN <<<<>>>> ELSE <<>>
  /\ gp = <<>> /\ gs = <<>> /\ gloc = "same" /\ gsub = FALSE /\ done = FALSE
Next == AddImport \/ CloseModule \/ Finish \/ AddParam \/ Place \/ AddUse \/ PlaceNest
Spec == Init /\ [][Next]_vars

World ==
  IF Family = "dag" THEN [fam |-> "dag", mods |-> mods]
  ELSE IF Family = "nest" THEN [fam |-> "nest", uses |-> gp, loc |-> gloc]
  ELSE [fam |-> "gen", params |-> gp, shapes |-> gs, loc |-> gloc, sub |-> gsub]

(* ---- the model's own obligations (checked by TLC on every world)                              *)
(* imports go to fixtures or EARLIER modules (the import graph is a DAG), once per module, alias  *)
(* names are distinct inside a module                                                            *)
WellFormed ==
  \A k \in DOMAIN mods :
    /\ \A x \in DOMAIN mods[k] : mods[k][x].t \in Targets(k)
    /\ \A x, y \in DOMAIN mods[k] :
         x # y => /\ mods[k][x].t # mods[k][y].t
                  /\ (mods[k][x].a # "" => mods[k][x].a # mods[k][y].a)
(* Derive is closed: the model can type every read it derives, the reader reads something, and   *)
(* a read through a type parameter never ends in an unbound parameter                            *)
RECURSIVE Ground(_)
Ground(t) == t[1] \notin {"tparam", "unknown"} /\ \A k \in DOMAIN t[3] : Ground(t[3][k])
Closed ==
  done => LET rs == ReadsOf(World) IN
          /\ Len(rs) >= 1
          /\ \A j \in DOMAIN rs : Ground(PathType(ModelD(World), rs[j]))
          \* a world of nested classes reads an attribute and a method of an Inner instance
          /\ (Family = "nest" =>
                \E j \in DOMAIN rs : ThroughNested(ModelD(World), rs[j]) /\ Len(rs[j].p) >= 1)

ExportInv ==
  done => PrintT(<<"CASE", ToJson([w |-> World, reads |-> ReadsOf(World),
                                   collide |-> Collides(World), nonalpha |-> NonAlpha(World)])>>)
=============================================================================

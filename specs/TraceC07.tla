------------------------------ MODULE TraceC07 ------------------------------
(* Code -> spec for C07: graphs (exported by Typegraph.tla, or random larger ones) were       *)
(* built in a fresh cfg.Program and every query was put to the real solver; the observed     *)
(* answers are judged here by the four clauses of C07, with SolverRef computed by TLC.       *)
(* Verdicts are total: every failing (clause, query) of every case is printed as a BAD line. *)
EXTENDS TypegraphOps, Json, IOUtils, TLCExt

Cases == JsonDeserialize(IOEnv.TRACE_FILE)

VARIABLE i
ToSet(s) == {s[x] : x \in DOMAIN s}

GraphOf(c) ==
  [nn |-> c.g.nn, edges |-> ToSet(c.g.edges), cond |-> c.g.cond, bvar |-> c.g.bvar,
   origins |-> {[b |-> o.b, n |-> o.n, ss |-> ToSet(o.ss)] : o \in ToSet(c.g.origins)}]

(* q = <<node, goal list, observed HasCombination>> *)
Fails(c) ==
  LET g == GraphOf(c)
      Q == DOMAIN c.qs
      acyc == Acyclic(g)
      hc == HasCond(g)
      S == Explainable(g, FALSE)
      T == Explainable(g, TRUE)
      R == PathRel(g)
      P1 == IF acyc /\ ~hc
              THEN {k \in Q : c.qs[k][3] # (<<c.qs[k][1], ToSet(c.qs[k][2])>> \in S)} ELSE {}
      P2 == IF acyc /\ hc
              THEN {k \in Q : <<c.qs[k][1], ToSet(c.qs[k][2])>> \in T /\ ~c.qs[k][3]} ELSE {}
      P3 == {k \in Q : c.qs[k][3] /\ ~AllReachable(g, R, c.qs[k][1], ToSet(c.qs[k][2]))}
      P4 == {k \in Q : c.qs[k][3] /\
               \E j \in Q : /\ c.qs[j][1] = c.qs[k][1]
                            /\ ToSet(c.qs[j][2]) \subseteq ToSet(c.qs[k][2])
                            /\ ~c.qs[j][3]}
  IN {<<"P1", k>> : k \in P1} \cup {<<"P2", k>> : k \in P2}
     \cup {<<"P3", k>> : k \in P3} \cup {<<"P4", k>> : k \in P4}

(* informational: how the permissive answers on cyclic / conditioned graphs relate to the LFP *)
Info(c) ==
  LET g == GraphOf(c)
      S == Explainable(g, IF HasCond(g) THEN TRUE ELSE FALSE) IN
  [cyc |-> ~Acyclic(g), hc |-> HasCond(g),
   morePermissive |-> Cardinality({k \in DOMAIN c.qs : c.qs[k][3] /\ <<c.qs[k][1], ToSet(c.qs[k][2])>> \notin S}),
   lessPermissive |-> Cardinality({k \in DOMAIN c.qs : ~c.qs[k][3] /\ <<c.qs[k][1], ToSet(c.qs[k][2])>> \in S})]

TInit == i = 1 /\ TLCSet(1, FALSE)
TNext == /\ i <= Len(Cases)
         /\ i' = i + 1
         /\ (i' > Len(Cases) => TLCSet(1, TRUE))

Ok == i <= Len(Cases) =>
        LET f == Fails(Cases[i]) IN
          f = {} \/ PrintT(<<"BAD", ToJson([i |-> i, fails |-> f])>>)

Done == TLCGet(1)
=============================================================================

------------------------------ MODULE TraceC02 ------------------------------
(* Code -> spec for C02: each case is one enforcement observed on the real pytype:             *)
(*   [ann |-> type term, val |-> value term, site |-> "arg"|"ret"|"assign", err |-> BOOLEAN]   *)
(* err = pytype reported the site's type error on that line.  C02: err <=> ~Admits(ann, val).  *)
EXTENDS PytdTypes, Json, IOUtils, TLCExt

Cases == JsonDeserialize(IOEnv.TRACE_FILE)
VARIABLE i

(* A disagreement is labelled with the single documented deviation that explains it, if any,   *)
(* else with the pair of deviations that does (in the fixed order of DevSeq), else it is       *)
(* reported in full.  The label is computed from the specification only.                       *)
DevSeq == <<"hetero", "nonebool", "strseq", "kwonlypos", "kwargsvar">>
Devs == {DevSeq[j] : j \in DOMAIN DevSeq}
PairLabels(P(_)) == {DevSeq[a] \o "+" \o DevSeq[b] : <<a, b>> \in
                      {q \in (DOMAIN DevSeq) \X (DOMAIN DevSeq) : q[1] < q[2] /\ P({DevSeq[q[1]], DevSeq[q[2]]})}}
Fails(c) ==
  LET adm == Admits(c.ann, c.val) IN
  IF ~Understood(c.ann) \/ ~Judgeable(c.ann, c.val) THEN {}
  ELSE IF c.err /\ adm THEN                            \* error on a conforming value
         LET ex == {d \in Devs : ~AdmitsD(c.ann, c.val, {d})} IN
         IF ex # {} THEN {"false-positive:" \o d : d \in ex} ELSE {"false-positive"}
  ELSE IF ~c.err /\ ~adm THEN                          \* violation not reported
         IF c.site = "assign" /\ c.val = <<"NoneType", <<>>>> THEN {"missed:assign-none"}
         ELSE LET ex == {d \in Devs : AdmitsD(c.ann, c.val, {d})}
                  Two(D) == AdmitsD(c.ann, c.val, D)
                  ex2 == PairLabels(Two) IN
              IF ex # {} THEN {"missed:" \o d : d \in ex}
              ELSE IF ex2 # {} THEN {"missed:" \o d : d \in ex2}
              ELSE {"missed"}
  ELSE {}

TInit == i = 1 /\ TLCSet(1, FALSE)
TNext == /\ i <= Len(Cases)
         /\ i' = i + 1
         /\ (i' > Len(Cases) => TLCSet(1, TRUE))
Ok == i <= Len(Cases) =>
        LET f == Fails(Cases[i]) IN
          f = {} \/ PrintT(<<"BAD", ToJson([i |-> i, fails |-> f])>>)
Done == TLCGet(1)
=============================================================================

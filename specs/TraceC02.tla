------------------------------ MODULE TraceC02 ------------------------------
(* Code -> spec for C02: each case is one enforcement observed on the real pytype:             *)
(*   [ann |-> type term, val |-> value term, site |-> "arg"|"kwarg"|"ret"|"assign", err]       *)
(* err = pytype reported the site's type error on that line.  C02: err <=> ~Admits(ann, val).  *)
EXTENDS PytdTypes, Json, IOUtils, TLCExt

Cases == JsonDeserialize(IOEnv.TRACE_FILE)
VARIABLE i

(* A disagreement is labelled with the single documented deviation that explains it, if any,   *)
(* else with the pair of deviations that does (in the fixed order of DevSeq), else it is       *)
(* reported in full.  The label is computed from the specification only.                       *)
DevSeq == <<"hetero", "nonebool", "strseq", "kwonlypos", "kwargsvar">>
Devs == {DevSeq[j] : j \in DOMAIN DevSeq}
PairLabels(P(_)) == {DevSeq[a] \o "+" \o DevSeq[b] : <<a, b>> \in
                      {q \in (DOMAIN DevSeq) \X (DOMAIN DevSeq) : q[1] < q[2] /\ P({DevSeq[q[1]], DevSeq[q[2]]})}}
(* why a function value is outside Callable[[int]*n, int] (names the violated clause of CanCall) *)
WhyNot(s, n) == IF n < s.mand THEN "below-mandatory-positionals"
                ELSE IF ~s.star /\ n > s.mand + s.opt THEN "above-maximum-positionals"
                ELSE "required-keyword-only"
SigsOf(t) == IF t[1] = "callsig" THEN {t}
             ELSE IF t[1] = "union" THEN {t[3][k] : k \in {j \in DOMAIN t[3] : t[3][j][1] = "callsig"}}
             ELSE {}
Fails(c) ==
  LET adm == Admits(c.ann, c.val) IN
  IF ~Understood(c.ann) \/ ~Judgeable(c.ann, c.val) THEN {}
  ELSE IF c.err /\ adm THEN                            \* error on a conforming value
         LET ex == {d \in Devs : ~AdmitsD(c.ann, c.val, {d})} IN
         IF ex # {} THEN {"false-positive:" \o d : d \in ex} ELSE {"false-positive"}
  ELSE IF ~c.err /\ ~adm THEN                          \* violation not reported
         IF c.site = "assign" /\ c.val = <<"NoneType", <<>>>> THEN {"missed:assign-none"}
         ELSE LET ex == {d \in Devs : AdmitsD(c.ann, c.val, {d})}
                  Two(D) == AdmitsD(c.ann, c.val, D)
                  ex2 == PairLabels(Two) IN
              IF ex # {} THEN {"missed:" \o d : d \in ex}
              ELSE IF ex2 # {} THEN {"missed:" \o d : d \in ex2}
              ELSE IF c.val[1] = "$def" /\ SigsOf(c.ann) # {}
                   THEN {"missed:fn-arity:" \o WhyNot(c.val[2], Len(u[3]) - 1) : u \in SigsOf(c.ann)}
              ELSE {"missed"}
  ELSE {}

TInit == i = 1 /\ TLCSet(1, FALSE)
TNext == /\ i <= Len(Cases)
         /\ i' = i + 1
         /\ (i' > Len(Cases) => TLCSet(1, TRUE))
Ok == i <= Len(Cases) =>
        LET f == Fails(Cases[i]) IN
          f = {} \/ PrintT(<<"BAD", ToJson([i |-> i, fails |-> f])>>)
Done == TLCGet(1)
=============================================================================

----------------------------- MODULE Typegraph -----------------------------
(* The typegraph of pytype (pytype/typegraph/{typegraph,solver,cfg}.cc) as a state machine    *)
(* whose actions are the Python-visible API, together with the declarative meaning of the     *)
(* solver's answer (SolverRef, property C07) and of history independence (C08).               *)
(*                                                                                            *)
(* Graph state                                                                                *)
(*   nn       number of CFG nodes, ids 1..nn (the code uses 0..nn-1)                          *)
(*   edges    set of <<a, b>>: forward CFG edge a -> b                                        *)
(*   cond     sequence, cond[n] = binding that is the node's condition, 0 = none              *)
(*   bvar     sequence, bvar[b]  = variable of binding b                                      *)
(*   bdata    sequence, bdata[b] = data identity of binding b (FindOrAddBinding keys on it)   *)
(*   origins  set of [b, n, ss]: binding b has an origin at node n with source set ss;        *)
(*            an origin with several source sets is several records                           *)
(*   nv       number of variables created                                                     *)
EXTENDS TypegraphOps, Json

CONSTANTS MaxNodes, MaxVars, MaxBindings, MaxData, MaxOrigins, MaxSS,
          UseCond,       \* BOOLEAN: node conditions may be set
          AllowCycles,   \* BOOLEAN: ConnectTo may close a cycle
          OrderedEdges,  \* BOOLEAN: only edges a -> b with a < b (topologically numbered DAGs)
          PasteOps,      \* BOOLEAN: compound API operations (Paste*, AssignToNewVariable)
          MaxOps,        \* bound on history length
          FreshData,     \* BOOLEAN: AddBinding always creates a new binding (data never reused)
          MaxQueries,    \* bound on Query steps in a history (0: no Query action)
          ExportMode     \* "none" | "states" (every distinct graph) | "trans" (every transition) | "final" (graph at the end of a
                         \* behaviour) | "hist" (maximal histories)

VARIABLES nn, edges, cond, bvar, bdata, origins, nv, hist

gvars == <<nn, edges, cond, bvar, bdata, origins, nv>>
vars == <<gvars, hist>>

Graph == [nn |-> nn, edges |-> edges, cond |-> cond, bvar |-> bvar, bdata |-> bdata,
          origins |-> origins, nv |-> nv]

-----------------------------------------------------------------------------
(* The API as actions *)

Nodes == 1 .. nn
Bind == 1 .. Len(bvar)
CondChoices == IF UseCond THEN {0} \cup Bind ELSE {0}
SourceSets == {ss \in SUBSET Bind : Cardinality(ss) <= MaxSS}
Op(rec) == hist' = Append(hist, rec)

NewCFGNode(c) ==
  /\ nn < MaxNodes
  /\ nn' = nn + 1 /\ cond' = Append(cond, c)
  /\ UNCHANGED <<edges, bvar, bdata, origins, nv>>
  /\ Op([op |-> "NewCFGNode", c |-> c])

ConnectNew(a, c) ==
  /\ nn < MaxNodes
  /\ nn' = nn + 1 /\ cond' = Append(cond, c)
  /\ edges' = edges \cup {<<a, nn + 1>>}
  /\ UNCHANGED <<bvar, bdata, origins, nv>>
  /\ Op([op |-> "ConnectNew", a |-> a, c |-> c])

ConnectTo(a, b) ==
  /\ a # b /\ <<a, b>> \notin edges
  /\ AllowCycles \/ <<b, a>> \notin PathRel(Graph)
  /\ OrderedEdges => a < b
  /\ edges' = edges \cup {<<a, b>>}
  /\ UNCHANGED <<nn, cond, bvar, bdata, origins, nv>>
  /\ Op([op |-> "ConnectTo", a |-> a, b |-> b])

NewVariable ==
  /\ nv < MaxVars
  /\ nv' = nv + 1
  /\ UNCHANGED <<nn, edges, cond, bvar, bdata, origins>>
  /\ Op([op |-> "NewVariable"])

(* Variable::FindOrAddBinding: the binding of v that holds data d, or a new one *)
Find(v, d) == {b \in Bind : bvar[b] = v /\ bdata[b] = d}

(* new origin records for binding tgt when CopyOrigins(other, where, add) is applied *)
CopyRecs(tgt, other, where, add) ==
  IF where # 0 THEN {[b |-> tgt, n |-> where, ss |-> add \cup {other}]}
  ELSE {[b |-> tgt, n |-> o.n, ss |-> add \cup o.ss] : o \in {x \in origins : x.b = other}}

(* Variable.AddBinding(data=d, source_set=ss, where=n); where = 0: AddBinding(data) only *)
AddBinding(v, d, n, ss) ==
  /\ v \in 1 .. nv
  /\ LET f == Find(v, d) IN
       IF f = {}
         THEN /\ Len(bvar) < MaxBindings
              /\ bvar' = Append(bvar, v) /\ bdata' = Append(bdata, d)
              /\ origins' = IF n = 0 THEN origins
                            ELSE origins \cup {[b |-> Len(bvar) + 1, n |-> n, ss |-> ss]}
         ELSE /\ UNCHANGED <<bvar, bdata>>
              /\ origins' = IF n = 0 THEN origins
                            ELSE origins \cup {[b |-> MinOf(f), n |-> n, ss |-> ss]}
  /\ Cardinality(origins') <= MaxOrigins
  /\ UNCHANGED <<nn, edges, cond, nv>>
  /\ Op([op |-> "AddBinding", v |-> v, d |-> d, n |-> n, ss |-> ss])

(* Binding.AddOrigin(where=n, source_set=ss) *)
AddOrigin(b, n, ss) ==
  /\ [b |-> b, n |-> n, ss |-> ss] \notin origins
  /\ Cardinality(origins) < MaxOrigins
  /\ origins' = origins \cup {[b |-> b, n |-> n, ss |-> ss]}
  /\ UNCHANGED <<nn, edges, cond, bvar, bdata, nv>>
  /\ Op([op |-> "AddOrigin", b |-> b, n |-> n, ss |-> ss])

(* node.condition = c *)
SetCondition(n, c) ==
  /\ cond[n] # c
  /\ cond' = [cond EXCEPT ![n] = c]
  /\ UNCHANGED <<nn, edges, bvar, bdata, origins, nv>>
  /\ Op([op |-> "SetCondition", n |-> n, c |-> c])

(* Variable.PasteBinding(binding=b, where, additional_sources=add) on variable v *)
PasteRecs(tgt, b, where, add) ==
  IF where = 0 THEN CopyRecs(tgt, b, 0, add)
  ELSE IF \E o \in origins : o.b = b /\ o.n # where
         THEN CopyRecs(tgt, b, where, add)
         ELSE CopyRecs(tgt, b, 0, add)

PasteBinding(v, b, where, add) ==
  /\ v \in 1 .. nv
  /\ LET f == Find(v, bdata[b])
         tgt == IF f = {} THEN Len(bvar) + 1 ELSE MinOf(f) IN
       /\ IF f = {}
            THEN /\ Len(bvar) < MaxBindings
                 /\ bvar' = Append(bvar, v) /\ bdata' = Append(bdata, bdata[b])
            ELSE UNCHANGED <<bvar, bdata>>
       /\ origins' = origins \cup PasteRecs(tgt, b, where, add)
  /\ Cardinality(origins') <= MaxOrigins
  /\ UNCHANGED <<nn, edges, cond, nv>>
  /\ Op([op |-> "PasteBinding", v |-> v, b |-> b, n |-> where, ss |-> add])

(* Binding.AssignToNewVariable(where) *)
AssignToNewVariable(b, where) ==
  /\ nv < MaxVars /\ Len(bvar) < MaxBindings
  /\ nv' = nv + 1
  /\ bvar' = Append(bvar, nv + 1) /\ bdata' = Append(bdata, bdata[b])
  /\ origins' = origins \cup CopyRecs(Len(bvar) + 1, b, where, {})
  /\ Cardinality(origins') <= MaxOrigins
  /\ UNCHANGED <<nn, edges, cond>>
  /\ Op([op |-> "AssignToNewVariable", b |-> b, n |-> where])

(* Variable.PasteBindingWithNewData(binding=b, data=d) on variable v *)
PasteBindingWithNewData(v, b, d) ==
  /\ v \in 1 .. nv
  /\ LET f == Find(v, d)
         tgt == IF f = {} THEN Len(bvar) + 1 ELSE MinOf(f) IN
       /\ IF f = {}
            THEN /\ Len(bvar) < MaxBindings
                 /\ bvar' = Append(bvar, v) /\ bdata' = Append(bdata, d)
            ELSE UNCHANGED <<bvar, bdata>>
       /\ origins' = origins \cup CopyRecs(tgt, b, 0, {})
  /\ Cardinality(origins') <= MaxOrigins
  /\ UNCHANGED <<nn, edges, cond, nv>>
  /\ Op([op |-> "PasteBindingWithNewData", v |-> v, b |-> b, d |-> d])

(* A visibility query: no effect on the graph (C08: and no effect on later answers) *)
NQueries == Cardinality({k \in DOMAIN hist : hist[k].op = "Query"})
Query(n, G) ==
  /\ NQueries < MaxQueries
  /\ UNCHANGED gvars
  /\ Op([op |-> "Query", n |-> n, G |-> G])

Init ==
  /\ nn = 0 /\ edges = {} /\ cond = <<>> /\ bvar = <<>> /\ bdata = <<>>
  /\ origins = {} /\ nv = 0 /\ hist = <<>>

(* last step of an exported behaviour: a single successor, so that simulation prints one case *)
End == UNCHANGED gvars /\ Op([op |-> "End"])

Next ==
  /\ Len(hist) < MaxOps
  /\ IF ExportMode \in {"final", "hist"} /\ Len(hist) = MaxOps - 1 THEN End ELSE
     \/ \E c \in CondChoices : NewCFGNode(c)
     \/ \E a \in Nodes, c \in CondChoices : ConnectNew(a, c)
     \/ \E a, b \in Nodes : ConnectTo(a, b)
     \/ NewVariable
     \/ \E v \in 1 .. nv, d \in (IF FreshData THEN {Len(bvar) + 1} ELSE 1 .. MaxData),
           n \in Nodes \cup {0}, ss \in SourceSets :
           (n = 0 => ss = {}) /\ AddBinding(v, d, n, ss)
     \/ \E b \in Bind, n \in Nodes, ss \in SourceSets : AddOrigin(b, n, ss)
     \/ UseCond /\ \E n \in Nodes, c \in CondChoices : SetCondition(n, c)
     \/ PasteOps /\ \E v \in 1 .. nv, b \in Bind, n \in Nodes \cup {0},
                       ss \in {s \in SourceSets : Cardinality(s) <= 1} :
                         bvar[b] # v /\ PasteBinding(v, b, n, ss)
     \/ PasteOps /\ \E b \in Bind, n \in Nodes \cup {0} : AssignToNewVariable(b, n)
     \/ PasteOps /\ \E v \in 1 .. nv, b \in Bind, d \in 1 .. MaxData :
                         bvar[b] # v /\ PasteBindingWithNewData(v, b, d)
     \/ \E n \in Nodes, G \in {s \in SUBSET Bind : s # {} /\ Cardinality(s) <= 2} : Query(n, G)

Spec == Init /\ [][Next]_vars

-----------------------------------------------------------------------------
(* Invariants checked on every reachable graph of the model *)

TypeOK ==
  /\ Len(cond) = nn /\ Len(bvar) = Len(bdata)
  /\ \A e \in edges : e[1] \in Nodes /\ e[2] \in Nodes /\ e[1] # e[2]
  /\ \A o \in origins : o.b \in Bind /\ o.n \in Nodes /\ o.ss \subseteq Bind
  /\ \A b \in Bind : bvar[b] \in 1 .. nv
  /\ \A a, b \in Bind : (a # b /\ bvar[a] = bvar[b]) => bdata[a] # bdata[b]

ClausesConsistent ==
  LET g == Graph
      S == Explainable(g, FALSE)
      T == Explainable(g, TRUE) IN
  /\ RefSubsetClosed(S)            \* clause 4 holds of the reference itself
  /\ RefImpliesReach(g, S)         \* clause 3 holds of the reference itself
  /\ (~HasCond(g) => T = S)
  /\ RefImpliesReach(g, T)

ExportInv ==
  CASE ExportMode = "states" -> PrintT(<<"CASE", ToJson(Graph)>>)
    [] ExportMode = "final" -> (Len(hist) = MaxOps => PrintT(<<"CASE", ToJson(Graph)>>))
    [] ExportMode = "hist" -> (Len(hist) = MaxOps => PrintT(<<"CASE", ToJson([h |-> hist])>>))
    [] OTHER -> TRUE

(* ACTION_CONSTRAINT used with VIEW GraphView: prints every transition (graph, operation) of   *)
(* the state graph exactly once ("one executed implementation test per transition").          *)
ExportTrans ==
  ExportMode = "trans" => PrintT(<<"CASE", ToJson([g |-> Graph, op |-> hist'[Len(hist')]])>>)

(* VIEW for "states" export: the history is an observation variable *)
GraphView == gvars
=============================================================================

----------------------------- MODULE OpDispatch -----------------------------
(* Operator / attribute / call dispatch on fully known operands (property C14).                *)
(* Operands are builtin values (named by their class) and instances of generated user classes  *)
(* characterised by which dunders they define and whether those decline (return                *)
(* NotImplemented).  For builtin operands the outcome tables are DATA probed from CPython; for  *)
(* anything involving a user class the outcome is computed by the data-model protocol below:    *)
(* forward dunder, reflected dunder, subclass-first rule, same-type rule, __getattr__ fallback, *)
(* __call__.  Outcomes: "ok", "TypeError", "AttributeError", "other" (IndexError, KeyError..).  *)
(*                                                                                              *)
(* Two families of behaviours:                                                                  *)
(*   base     one statement whose operands are literals / fresh instances bound on earlier      *)
(*            lines (action Base);                                                              *)
(*   history  a LOCATION (an instance attribute first assigned in __init__, or a module-level   *)
(*            name) is assigned a sequence of operand kinds (actions Bind, Rebind: adjacent      *)
(*            kinds differ) and is read as an operand after every assignment (action Use).      *)
(*            The operand kind of a read is the LAST assigned kind; everything assigned before   *)
(*            is overwritten and must not influence the statement.                              *)
EXTENDS Naturals, Sequences, FiniteSets, TLC, Json, IOUtils

CONSTANTS Export,      \* print one CASE line per statement state
          HSlices,     \* the history plans are partitioned into HSlices fixed slices
          HSlice       \* the slice explored by this run (HSlice >= HSlices: all of them)

(* outcome tables for builtin operands: DATA probed from CPython by the driver *)
Tables == JsonDeserialize(IOEnv.OP_TABLES)
S2S(q) == {q[x] : x \in DOMAIN q}
Builtins   == S2S(Tables.builtins)   \* builtin operand names
BinTable   == S2S(Tables.bin)        \* <<op, l, r, outcome>>
UnaryTable == S2S(Tables.unary)      \* <<l, outcome>>          (unary minus)
SubTable   == S2S(Tables.sub)        \* <<l, r, outcome>>       (l[r])
AttrTable  == S2S(Tables.attr)       \* <<l, name, outcome>>    (l.name)
MethTable  == S2S(Tables.meth)       \* <<l, name, outcome>>    (l.name())
CallTable  == S2S(Tables.call)       \* <<l, outcome>>          (l())
AttrNames  == S2S(Tables.attrnames)  \* attribute / method names used on builtin operands

(* user classes: name |-> [base, defs]; defs: dunder/attribute name |-> kind                   *)
(*   "val" dunder returning a value; "ni" dunder returning NotImplemented;                     *)
(*   "attr" plain data attribute (an int); "meth" ordinary method                              *)
NoDefs == [x \in {} |-> "val"]
UserClasses ==
  [ U0   |-> [base |-> "object", defs |-> NoDefs],
    Ua   |-> [base |-> "object", defs |-> [__add__ |-> "val"]],
    Uan  |-> [base |-> "object", defs |-> [__add__ |-> "ni"]],
    Ur   |-> [base |-> "object", defs |-> [__radd__ |-> "val"]],
    Urn  |-> [base |-> "object", defs |-> [__radd__ |-> "ni"]],
    Uar  |-> [base |-> "object", defs |-> [__add__ |-> "val", __radd__ |-> "val"]],
    Uanr |-> [base |-> "object", defs |-> [__add__ |-> "ni", __radd__ |-> "val"]],
    Sa   |-> [base |-> "Uan", defs |-> NoDefs],                      \* inherits a declining __add__
    Sr   |-> [base |-> "Uan", defs |-> [__radd__ |-> "val"]],        \* subclass-first rule
    Un   |-> [base |-> "object", defs |-> [__neg__ |-> "val"]],
    Ug   |-> [base |-> "object", defs |-> [__getitem__ |-> "val"]],
    Uc   |-> [base |-> "object", defs |-> [__call__ |-> "val"]],
    Uga  |-> [base |-> "object", defs |-> [__getattr__ |-> "val"]],
    Um   |-> [base |-> "object", defs |-> [a |-> "attr", m |-> "meth"]],
    Sm   |-> [base |-> "Um", defs |-> NoDefs] ]

Users == DOMAIN UserClasses
Operands == Builtins \cup Users
UserAttrNames == {"a", "m", "zz"}

RECURSIVE Lookup(_, _)
(* kind of `name` found through the MRO of user class c, or "none" *)
Lookup(c, name) ==
  IF c = "object" THEN "none"
  ELSE IF name \in DOMAIN UserClasses[c].defs THEN UserClasses[c].defs[name]
  ELSE Lookup(UserClasses[c].base, name)

RECURSIVE IsSubclass(_, _)
IsSubclass(c, d) ==
  c = d \/ (c \in Users /\ UserClasses[c].base # "object" /\ IsSubclass(UserClasses[c].base, d))

DefinesItself(c, name) == c \in Users /\ name \in DOMAIN UserClasses[c].defs

Dunder(x, name) == IF x \in Users THEN Lookup(x, name) ELSE "none"

(* l + r where at least one operand is a user-class instance.  A builtin left operand's       *)
(* forward method declines a user-class right operand.                                        *)
UserAdd(l, r) ==
  LET fwd == Dunder(l, "__add__")
      rev == Dunder(r, "__radd__")
      subFirst == l # r /\ r \in Users /\ l \in Users /\ IsSubclass(r, l) /\ DefinesItself(r, "__radd__")
      tryRev == l # r          \* reflected method is not tried for operands of the same type
  IN IF subFirst /\ rev = "val" THEN "ok"
     ELSE IF fwd = "val" THEN "ok"
     ELSE IF tryRev /\ rev = "val" THEN "ok"
     ELSE "TypeError"

Pick(S) == CHOOSE x \in S : TRUE

BinOps == {"+", "-", "*", "/"}

(* the probed tables as functions (evaluated once) *)
BinFn   == [k \in BinOps \X Builtins \X Builtins |->
              Pick({t \in BinTable : t[1] = k[1] /\ t[2] = k[2] /\ t[3] = k[3]})[4]]
UnaryFn == [l \in Builtins |-> Pick({t \in UnaryTable : t[1] = l})[2]]
CallFn  == [l \in Builtins |-> Pick({t \in CallTable : t[1] = l})[2]]

Outcome(s) ==
  LET kind == s[1]  op == s[2]  l == s[3]  r == s[4] IN
  CASE kind = "bin" ->
         IF l \in Builtins /\ r \in Builtins THEN BinFn[<<op, l, r>>]
         ELSE IF op = "+" THEN UserAdd(l, r)
         ELSE "TypeError"       \* the generated classes define no dunder of - * / (only reached
                                \* for overwritten kinds of a history, never for a statement)
    [] kind = "unary" ->
         IF l \in Builtins THEN UnaryFn[l]
         ELSE IF Dunder(l, "__neg__") = "val" THEN "ok" ELSE "TypeError"
    [] kind = "sub" ->
         IF l \in Builtins THEN Pick({t \in SubTable : t[1] = l /\ t[2] = r})[3]
         ELSE IF Dunder(l, "__getitem__") = "val" THEN "ok" ELSE "TypeError"
    [] kind = "attr" ->
         IF l \in Builtins THEN Pick({t \in AttrTable : t[1] = l /\ t[2] = op})[3]
         ELSE IF Lookup(l, op) # "none" \/ Lookup(l, "__getattr__") = "val" THEN "ok"
         ELSE "AttributeError"
    [] kind = "meth" ->
         IF l \in Builtins THEN Pick({t \in MethTable : t[1] = l /\ t[2] = op})[3]
         ELSE IF Lookup(l, op) = "meth" THEN "ok"
         ELSE IF Lookup(l, op) # "none" \/ Lookup(l, "__getattr__") = "val" THEN "TypeError"
         ELSE "AttributeError"
    [] kind = "call" ->
         IF l \in Builtins THEN CallFn[l]
         ELSE IF Dunder(l, "__call__") = "val" THEN "ok" ELSE "TypeError"
    [] kind = "assign" -> "ok"      \* binding a literal / fresh instance never raises

(* the statement grammar *)
Statements ==
       {<<"bin", op, l, r>> : op \in BinOps, l \in Builtins, r \in Builtins}
  \cup {<<"bin", "+", l, r>> : l \in Operands, r \in Users}
  \cup {<<"bin", "+", l, r>> : l \in Users, r \in Builtins}
  \cup {<<"unary", "-", l, l>> : l \in Operands}
  \cup {<<"sub", "[]", t[1], t[2]>> : t \in SubTable}
  \cup {<<"sub", "[]", l, "int">> : l \in Users}
  \cup {<<"attr", n, l, l>> : n \in AttrNames, l \in Builtins}
  \cup {<<"attr", n, l, l>> : n \in UserAttrNames, l \in Users}
  \cup {<<"meth", n, l, l>> : n \in AttrNames, l \in Builtins}
  \cup {<<"meth", n, l, l>> : n \in UserAttrNames, l \in Users}
  \cup {<<"call", "()", l, l>> : l \in Operands}

(* The mistakes pytype advertises to catch (second half of C14) *)
Advertised(s) ==
  LET kind == s[1]  l == s[3]  r == s[4]  o == Outcome(s) IN
  \/ kind \in {"attr", "meth"} /\ o = "AttributeError"            \* missing attribute / method
  \/ kind = "call" /\ o = "TypeError" /\ (l \in Users \/ l \notin {"len"})   \* calling a non-callable
  \/ kind = "meth" /\ l \in Users /\ o = "TypeError"               \* calling a non-callable attribute
  \/ kind \in {"bin", "unary", "sub"} /\ l \in Builtins /\ r \in Builtins /\ o = "TypeError"

(* ------------------------------------------------------------------------------------------ *)
(* Locations with an assignment history                                                        *)
(* ------------------------------------------------------------------------------------------ *)
LocKinds == {"attr",     \* b.v : first assigned by `self.v = ...` in __init__, then `b.v = ...`
             "name"}     \* g   : module-level name assigned repeatedly
MaxHist == 3
(* kinds used for histories of three assignments (the third may equal the first) *)
HK3 == {"int", "str", "list", "NoneType", "len", "Ua", "Ug", "Uc"}
(* the other operand of a binary operator applied to a location *)
Probe == {"int", "float", "str", "bytes", "list", "tuple", "NoneType", "Ua", "Ur"}

Plans ==
       {<<a>> : a \in Operands}
  \cup {p \in {<<a, b>> : a \in Operands, b \in Operands} : p[1] # p[2]}
  \cup {p \in {<<a, b, c>> : a \in HK3, b \in HK3, c \in HK3} : p[1] # p[2] /\ p[2] # p[3]}

(* fixed partition of the plans: position of the kinds in a fixed order, mixed per position *)
UserSeq == <<"U0", "Ua", "Uan", "Ur", "Urn", "Uar", "Uanr", "Sa", "Sr", "Un", "Ug", "Uc", "Uga",
             "Um", "Sm">>
KindSeq == Tables.builtins \o UserSeq
Ord == [k \in Operands |-> CHOOSE n \in 1..Len(KindSeq) : KindSeq[n] = k]
HIdx(p) == (Ord[p[1]] + (IF Len(p) >= 2 THEN 5 * Ord[p[2]] ELSE 0)
                      + (IF Len(p) >= 3 THEN 7 * Ord[p[3]] ELSE 0)) % HSlices
InSlice(p) == HSlice >= HSlices \/ HIdx(p) = HSlice

(* statement templates: "@" stands for the value read from the location.  They mirror the     *)
(* base grammar (with user-class operands only "+"), so that a template resolved with the      *)
(* current kind is a statement of the base grammar.                                            *)
HTemplates ==
       {<<"bin", op, "@", p>> : op \in BinOps, p \in Probe \cap Builtins}
  \cup {<<"bin", op, p, "@">> : op \in BinOps, p \in Probe \cap Builtins}
  \cup {<<"bin", "+", "@", p>> : p \in Probe}
  \cup {<<"bin", "+", p, "@">> : p \in Probe}
  \cup {<<"unary", "-", "@", "@">>, <<"sub", "[]", "@", "int">>, <<"sub", "[]", "@", "str">>,
        <<"call", "()", "@", "@">>}
Templates(k) ==
  IF k \in Builtins THEN HTemplates
  ELSE {t \in HTemplates : (t[1] = "bin" => t[2] = "+") /\ t # <<"sub", "[]", "@", "str">>}
(* reads between two assignments (the location is overwritten afterwards) *)
MidTemplates == {<<"bin", "+", "@", "int">>, <<"bin", "+", "int", "@">>, <<"unary", "-", "@", "@">>,
                 <<"sub", "[]", "@", "int">>, <<"call", "()", "@", "@">>}

Resolve(t, k) == <<t[1], t[2], IF t[3] = "@" THEN k ELSE t[3], IF t[4] = "@" THEN k ELSE t[4]>>
Last(h) == h[Len(h)]
IsErr(o) == o \in {"TypeError", "AttributeError"}

(* the statement distinguishes the current kind from an overwritten one *)
Sensitive(h, t) ==
  \E j \in 1..(Len(h) - 1) :
     IsErr(Outcome(Resolve(t, h[j]))) # IsErr(Outcome(Resolve(t, Last(h))))

VARIABLES stmt, out,       \* the statement (template, for a history) and its outcome
          loc, plan, hist  \* history family: kind of location, planned and performed assignments
vars == <<stmt, out, loc, plan, hist>>
NoStmt == <<"none", "", "", "">>
Init == stmt = NoStmt /\ out = "ok" /\ loc = "none" /\ plan = <<>> /\ hist = <<>>

Base == /\ stmt = NoStmt /\ loc = "none"
        /\ \E s \in Statements : stmt' = s /\ out' = Outcome(s)
        /\ UNCHANGED <<loc, plan, hist>>

(* first assignment *)
Bind == /\ stmt = NoStmt /\ loc = "none"
        /\ \E l \in LocKinds, p \in {q \in Plans : InSlice(q)} :
              /\ loc' = l /\ plan' = p /\ hist' = <<p[1]>>
              /\ stmt' = <<"assign", "=", "@", p[1]>> /\ out' = "ok"

(* re-assignment with a value of a different kind *)
CanRebind(h, k) == Len(h) >= 1 /\ Len(h) < MaxHist /\ k \in Operands /\ k # Last(h)
Rebind == /\ loc # "none" /\ Len(hist) < Len(plan)
          /\ LET k == plan[Len(hist) + 1] IN
               /\ CanRebind(hist, k)
               /\ hist' = Append(hist, k)
               /\ stmt' = <<"assign", "=", "@", k>> /\ out' = "ok"
          /\ UNCHANGED <<loc, plan>>

(* a read of the location as an operand; the state of the location is unchanged, so the reads  *)
(* after one assignment are alternatives of each other (the driver puts them on consecutive    *)
(* lines of one program)                                                                       *)
UsableAt(h, p, t) ==
  /\ Len(h) >= 1
  /\ t \in (IF Len(h) = Len(p) THEN Templates(Last(h)) ELSE MidTemplates)
Use == /\ loc # "none" /\ stmt[1] = "assign"
       /\ \E t \in HTemplates : /\ UsableAt(hist, plan, t)
                                    /\ stmt' = t /\ out' = Outcome(Resolve(t, Last(hist)))
       /\ UNCHANGED <<loc, plan, hist>>

Next == Base \/ Bind \/ Rebind \/ Use
Spec == Init /\ [][Next]_vars

(* protocol sanity: outcome total; reflected tried only after forward declined *)
Total == out \in {"ok", "TypeError", "AttributeError", "other"}
ReflectedOnlyAfterDecline ==
  (loc = "none" /\ stmt[1] = "bin" /\ stmt[2] = "+" /\ stmt[3] \in Users
     /\ Dunder(stmt[3], "__add__") = "val"
     /\ ~(stmt[4] \in Users /\ IsSubclass(stmt[4], stmt[3]) /\ DefinesItself(stmt[4], "__radd__")))
  => out = "ok"
(* history sanity: performed assignments are a prefix of the plan, adjacent kinds differ, a     *)
(* read resolves to a statement of the base grammar and its outcome is the outcome of that      *)
(* statement with the LAST assigned kind, whatever was assigned before                          *)
IsUse == loc # "none" /\ stmt[1] \notin {"none", "assign"}
HistoryShape ==
  loc # "none" =>
    /\ Len(hist) \in 1..Len(plan) /\ Len(plan) <= MaxHist
    /\ \A j \in 1..Len(hist) : hist[j] = plan[j]
    /\ \A j \in 1..(Len(hist) - 1) : hist[j] # hist[j + 1]
LastWriteWins ==
  IsUse => /\ Resolve(stmt, Last(hist)) \in Statements
           /\ out = Outcome(Resolve(stmt, Last(hist)))
ExportInv ==
  (Export /\ stmt[1] \notin {"none", "assign"}) =>
     IF loc = "none"
       THEN PrintT(<<"CASE", ToJson([fam |-> "base", s |-> stmt, o |-> out,
                                     adv |-> Advertised(stmt)])>>)
       ELSE PrintT(<<"CASE", ToJson([fam |-> "hist", loc |-> loc, plan |-> plan, h |-> hist,
                                     s |-> stmt, rs |-> Resolve(stmt, Last(hist)), o |-> out,
                                     adv |-> Advertised(Resolve(stmt, Last(hist))),
                                     sens |-> Sensitive(hist, stmt), slice |-> HIdx(plan)])>>)
=============================================================================

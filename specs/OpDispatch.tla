----------------------------- MODULE OpDispatch -----------------------------
(* Operator / attribute / call dispatch on fully known operands (property C14).                *)
(* Operands are builtin values (named by their class) and instances of generated user classes  *)
(* characterised by which dunders they define and whether those decline (return                *)
(* NotImplemented).  For builtin operands the outcome tables are DATA probed from CPython; for  *)
(* anything involving a user class the outcome is computed by the data-model protocol below:    *)
(* forward dunder, reflected dunder, subclass-first rule, same-type rule, __getattr__ fallback, *)
(* __call__.  Outcomes: "ok", "TypeError", "AttributeError", "other" (IndexError, KeyError..).  *)
EXTENDS Naturals, Sequences, FiniteSets, TLC, Json, IOUtils

CONSTANT Export

(* outcome tables for builtin operands: DATA probed from CPython by the driver *)
Tables == JsonDeserialize(IOEnv.OP_TABLES)
S2S(q) == {q[x] : x \in DOMAIN q}
Builtins   == S2S(Tables.builtins)   \* builtin operand names
BinTable   == S2S(Tables.bin)        \* <<op, l, r, outcome>>
UnaryTable == S2S(Tables.unary)      \* <<l, outcome>>          (unary minus)
SubTable   == S2S(Tables.sub)        \* <<l, r, outcome>>       (l[r])
AttrTable  == S2S(Tables.attr)       \* <<l, name, outcome>>    (l.name)
MethTable  == S2S(Tables.meth)       \* <<l, name, outcome>>    (l.name())
CallTable  == S2S(Tables.call)       \* <<l, outcome>>          (l())
AttrNames  == S2S(Tables.attrnames)  \* attribute / method names used on builtin operands

(* user classes: name |-> [base, defs]; defs: dunder/attribute name |-> kind                   *)
(*   "val" dunder returning a value; "ni" dunder returning NotImplemented;                     *)
(*   "attr" plain data attribute (an int); "meth" ordinary method                              *)
NoDefs == [x \in {} |-> "val"]
UserClasses ==
  [ U0   |-> [base |-> "object", defs |-> NoDefs],
    Ua   |-> [base |-> "object", defs |-> [__add__ |-> "val"]],
    Uan  |-> [base |-> "object", defs |-> [__add__ |-> "ni"]],
    Ur   |-> [base |-> "object", defs |-> [__radd__ |-> "val"]],
    Urn  |-> [base |-> "object", defs |-> [__radd__ |-> "ni"]],
    Uar  |-> [base |-> "object", defs |-> [__add__ |-> "val", __radd__ |-> "val"]],
    Uanr |-> [base |-> "object", defs |-> [__add__ |-> "ni", __radd__ |-> "val"]],
    Sa   |-> [base |-> "Uan", defs |-> NoDefs],                      \* inherits a declining __add__
    Sr   |-> [base |-> "Uan", defs |-> [__radd__ |-> "val"]],        \* subclass-first rule
    Un   |-> [base |-> "object", defs |-> [__neg__ |-> "val"]],
    Ug   |-> [base |-> "object", defs |-> [__getitem__ |-> "val"]],
    Uc   |-> [base |-> "object", defs |-> [__call__ |-> "val"]],
    Uga  |-> [base |-> "object", defs |-> [__getattr__ |-> "val"]],
    Um   |-> [base |-> "object", defs |-> [a |-> "attr", m |-> "meth"]],
    Sm   |-> [base |-> "Um", defs |-> NoDefs] ]

Users == DOMAIN UserClasses
Operands == Builtins \cup Users
UserAttrNames == {"a", "m", "zz"}

RECURSIVE Lookup(_, _)
(* kind of `name` found through the MRO of user class c, or "none" *)
Lookup(c, name) ==
  IF c = "object" THEN "none"
  ELSE IF name \in DOMAIN UserClasses[c].defs THEN UserClasses[c].defs[name]
  ELSE Lookup(UserClasses[c].base, name)

RECURSIVE IsSubclass(_, _)
IsSubclass(c, d) ==
  c = d \/ (c \in Users /\ UserClasses[c].base # "object" /\ IsSubclass(UserClasses[c].base, d))

DefinesItself(c, name) == c \in Users /\ name \in DOMAIN UserClasses[c].defs

Dunder(x, name) == IF x \in Users THEN Lookup(x, name) ELSE "none"

(* l + r where at least one operand is a user-class instance.  A builtin left operand's       *)
(* forward method declines a user-class right operand.                                        *)
UserAdd(l, r) ==
  LET fwd == Dunder(l, "__add__")
      rev == Dunder(r, "__radd__")
      subFirst == l # r /\ r \in Users /\ l \in Users /\ IsSubclass(r, l) /\ DefinesItself(r, "__radd__")
      tryRev == l # r          \* reflected method is not tried for operands of the same type
  IN IF subFirst /\ rev = "val" THEN "ok"
     ELSE IF fwd = "val" THEN "ok"
     ELSE IF tryRev /\ rev = "val" THEN "ok"
     ELSE "TypeError"

Pick(S) == CHOOSE x \in S : TRUE

Outcome(s) ==
  LET kind == s[1]  op == s[2]  l == s[3]  r == s[4] IN
  CASE kind = "bin" ->
         IF l \in Builtins /\ r \in Builtins
           THEN Pick({t \in BinTable : t[1] = op /\ t[2] = l /\ t[3] = r})[4]
           ELSE UserAdd(l, r)                         \* only "+" is generated with user operands
    [] kind = "unary" ->
         IF l \in Builtins THEN Pick({t \in UnaryTable : t[1] = l})[2]
         ELSE IF Dunder(l, "__neg__") = "val" THEN "ok" ELSE "TypeError"
    [] kind = "sub" ->
         IF l \in Builtins THEN Pick({t \in SubTable : t[1] = l /\ t[2] = r})[3]
         ELSE IF Dunder(l, "__getitem__") = "val" THEN "ok" ELSE "TypeError"
    [] kind = "attr" ->
         IF l \in Builtins THEN Pick({t \in AttrTable : t[1] = l /\ t[2] = op})[3]
         ELSE IF Lookup(l, op) # "none" \/ Lookup(l, "__getattr__") = "val" THEN "ok"
         ELSE "AttributeError"
    [] kind = "meth" ->
         IF l \in Builtins THEN Pick({t \in MethTable : t[1] = l /\ t[2] = op})[3]
         ELSE IF Lookup(l, op) = "meth" THEN "ok"
         ELSE IF Lookup(l, op) # "none" \/ Lookup(l, "__getattr__") = "val" THEN "TypeError"
         ELSE "AttributeError"
    [] kind = "call" ->
         IF l \in Builtins THEN Pick({t \in CallTable : t[1] = l})[2]
         ELSE IF Dunder(l, "__call__") = "val" THEN "ok" ELSE "TypeError"

(* the statement grammar *)
BinOps == {"+", "-", "*", "/"}
Statements ==
       {<<"bin", op, l, r>> : op \in BinOps, l \in Builtins, r \in Builtins}
  \cup {<<"bin", "+", l, r>> : l \in Operands, r \in Users}
  \cup {<<"bin", "+", l, r>> : l \in Users, r \in Builtins}
  \cup {<<"unary", "-", l, l>> : l \in Operands}
  \cup {<<"sub", "[]", t[1], t[2]>> : t \in SubTable}
  \cup {<<"sub", "[]", l, "int">> : l \in Users}
  \cup {<<"attr", n, l, l>> : n \in AttrNames, l \in Builtins}
  \cup {<<"attr", n, l, l>> : n \in UserAttrNames, l \in Users}
  \cup {<<"meth", n, l, l>> : n \in AttrNames, l \in Builtins}
  \cup {<<"meth", n, l, l>> : n \in UserAttrNames, l \in Users}
  \cup {<<"call", "()", l, l>> : l \in Operands}

(* The mistakes pytype advertises to catch (second half of C14) *)
Advertised(s) ==
  LET kind == s[1]  l == s[3]  r == s[4]  o == Outcome(s) IN
  \/ kind \in {"attr", "meth"} /\ o = "AttributeError"            \* missing attribute / method
  \/ kind = "call" /\ o = "TypeError" /\ (l \in Users \/ l \notin {"len"})   \* calling a non-callable
  \/ kind = "meth" /\ l \in Users /\ o = "TypeError"               \* calling a non-callable attribute
  \/ kind \in {"bin", "unary", "sub"} /\ l \in Builtins /\ r \in Builtins /\ o = "TypeError"

VARIABLES stmt, out
Init == stmt = <<"none", "", "", "">> /\ out = "ok"
Next == \E s \in Statements : stmt' = s /\ out' = Outcome(s)
Spec == Init /\ [][Next]_<<stmt, out>>

(* protocol sanity: outcome total; reflected tried only after forward declined *)
Total == out \in {"ok", "TypeError", "AttributeError", "other"}
ReflectedOnlyAfterDecline ==
  (stmt[1] = "bin" /\ stmt[3] \in Users /\ Dunder(stmt[3], "__add__") = "val"
     /\ ~(stmt[4] \in Users /\ IsSubclass(stmt[4], stmt[3]) /\ DefinesItself(stmt[4], "__radd__")))
  => out = "ok"
ExportInv ==
  (Export /\ stmt[1] # "none") =>
     PrintT(<<"CASE", ToJson([s |-> stmt, o |-> out, adv |-> Advertised(stmt)])>>)
=============================================================================

------------------------------ MODULE TraceC10 ------------------------------
(* Code -> spec for C10.  Every case is one hierarchy (a history of class statements) with   *)
(* what CPython and pytype did with it.  The spec state is advanced by C3's own actions       *)
(* (DefineClass, Emit, Fail, Finish); when all statements of the case are done the recorded   *)
(* observations are judged against lin:                                                       *)
(*   py    CPython: type(name, bases, {}) per statement, and the executed source program      *)
(*         -> "ORACLE" lines (the spec itself is wrong: machinery failure)                    *)
(*   merge pytype level 1a: mro.MROMerge on the lists the spec hands to its merge             *)
(*   pytd  pytype level 1b: mro.GetBasesInMRO on the pytd.Class nodes of the loaded stub      *)
(*   src   pytype level 2: the hierarchy as a source program ([mro-error] lines, types read   *)
(*         through every class and instance for attributes defined by a pair of classes)      *)
(*   stub  pytype level 3: the same reads by a reader module through the .pyi classes         *)
(*   mix   pytype level 3b: source classes whose bases are the stub classes                   *)
(*         -> "BAD" lines (property-level verdicts), every failing clause named               *)
(* A read is <<c, x, y, viaClass, viaInstance>>: attribute defined exactly by classes x and y, *)
(* read through class c; observed definer id (0: attribute-error, -1: anything else).         *)
(*                                                                                            *)
(* Case.kind selects what was recorded:                                                       *)
(*   "hier" plain hierarchies, all levels above                                               *)
(*   "gen"  hierarchies with generic bases under several spellings (K, K[int], K[str], K[T],  *)
(*          Generic[T]): levels py, src, mix (statements and reads) and stub (reads through   *)
(*          the stub classes of the statements that succeed)                                  *)
(*   "hist" attribute histories: Case.prog is the program (class statements, `K.tag = v`,     *)
(*          reads of `tag`), replayed with DefineClass / Assign / Read; src.obs[s] (py.obs[s]) *)
(*          are the markers pytype inferred (CPython produced) for the reads of step s, judged *)
(*          against hist[s].exp, the definition the spec's own Read action recorded.          *)
EXTENDS C3, IOUtils, TLCExt

Cases == JsonDeserialize(IOEnv.TRACE_FILE)

VARIABLES i, j

Case == Cases[i]
Prog == IF Case.kind = "hist" THEN Case.prog
        ELSE [k \in DOMAIN Case.bases |-> [op |-> "class", bases |-> Case.bases[k], def |-> FALSE]]
NStep == Len(Prog)

TInit == Init /\ i = 1 /\ j = 0 /\ TLCSet(1, FALSE)

Replay ==
  /\ i <= Len(Cases)
  /\ IF pc = "merge" THEN (Emit \/ Fail \/ Finish) /\ UNCHANGED <<i, j>>
     ELSE /\ j < NStep
          /\ LET s == Prog[j + 1] IN
               \/ s.op = "class" /\ DefineClass(s.bases, s.def)
               \/ s.op = "assign" /\ Assign(s.c)
               \/ s.op = "read" /\ Read(s.c, s.m)
          /\ j' = j + 1 /\ i' = i

NextCase ==
  /\ i <= Len(Cases) /\ pc = "idle" /\ j = NStep
  /\ i' = i + 1 /\ j' = 0
  /\ hier' = <<>> /\ lin' = <<>> /\ seqs' = <<>> /\ res' = <<>> /\ pc' = "idle"
  /\ defs' = <<>> /\ hist' = <<>>
  /\ (i' > Len(Cases) => TLCSet(1, TRUE))

TNext == Replay \/ NextCase

Judging == i <= Len(Cases) /\ pc = "idle" /\ j = NStep

-----------------------------------------------------------------------------
(* pytype's documented deviation (known finding C10:duplicate-direct-base): MROMerge removes  *)
(* duplicates from every input list before merging, so a repeated base is not noticed.        *)
RECURSIVE DedupRec(_, _)
DedupRec(s, acc) == IF s = <<>> THEN acc
                    ELSE DedupRec(Tail(s), IF Head(s) \in ToSet(acc) THEN acc ELSE Append(acc, Head(s)))
Dedup(s) == DedupRec(s, <<>>)
DevMerge(s) ==
  LET inp == MergeInput(SubSeq(lin, 1, s - 1), hier[s]) IN
  MergeRec([k \in DOMAIN inp |-> Dedup(inp[k])], <<s>>)
DevAccepts(s) == DevMerge(s).ok   \* would the merge succeed after Dedup of the lists of statement s?

Expected(r) == FirstDefiner(lin[r[1]].mro, {r[2], r[3]})

(* clauses about the set E of statements on which an MRO error was reported *)
ErrClauses(tag, E) ==
  {<<tag \o ":false-mro-error", s>> : s \in {t \in DOMAIN lin : lin[t].st = "ok" /\ t \in E}}
  \cup {<<tag \o ":missing-mro-error", s>> :
          s \in {t \in DOMAIN lin : lin[t].st = "order" /\ t \notin E}}
  \cup {<<tag \o ":missing-mro-error", s>> :
          s \in {t \in DOMAIN lin : lin[t].st = "dup" /\ t \notin E /\ ~DevAccepts(t)}}
  \cup {<<tag \o ":duplicate-direct-base", s>> :
          s \in {t \in DOMAIN lin : lin[t].st = "dup" /\ t \notin E /\ DevAccepts(t)}}

(* reads are judged through well-typed classes (C3Ops!Clean; every plain class is Clean) *)
ReadClauses(tag, reads) ==
  LET J == {x \in DOMAIN reads : Clean(hier, reads[x][1])} IN
  {<<tag \o ":class-read", k>> : k \in {x \in J : reads[x][4] # Expected(reads[x])}}
  \cup {<<tag \o ":instance-read", k>> : k \in {x \in J : reads[x][5] # Expected(reads[x])}}

(* per-statement observation o = [ok, mro] of a whole linearisation *)
MroClauses(tag, obs) ==
  {<<tag \o ":wrong-mro", s>> :
     s \in {t \in DOMAIN lin : lin[t].st = "ok" /\ obs[t].ok /\ obs[t].mro # lin[t].mro}}
  \cup {<<tag \o ":wrong-mro", s>> :   \* the known deviation is exactly "merge after Dedup"
          s \in {t \in DOMAIN lin : lin[t].st = "dup" /\ obs[t].ok /\ DevAccepts(t)
                                    /\ obs[t].mro # DevMerge(t).mro}}
  \cup ErrClauses(tag, {t \in DOMAIN obs : ~obs[t].ok})

(* histories: every marker observed for the reads of step s is the one the spec recorded;    *)
(* a wrong marker that an EARLIER read through the same class legitimately got is named stale *)
ReadSteps == {t \in DOMAIN hist : hist[t].op = "read"}
JudgedSteps == {t \in ReadSteps : Clean(hier, hist[t].c)}
WrongAt(obs, t) == {q \in DOMAIN obs[t] : obs[t][q] # hist[t].exp}
StaleAt(obs, t) ==
  \E q \in WrongAt(obs, t) : \E u \in 1 .. (t - 1) :
     hist[u].op = "read" /\ hist[u].c = hist[t].c /\ hist[u].exp = obs[t][q] /\ obs[t][q] > 0
HistClauses(tag, obs) ==
  {<<tag \o ":stale-read-after-assign", s>> :
     s \in {t \in JudgedSteps : WrongAt(obs, t) # {} /\ StaleAt(obs, t)}}
  \cup {<<tag \o ":history-read", s>> :
     s \in {t \in JudgedSteps : WrongAt(obs, t) # {} /\ ~StaleAt(obs, t)}}
ShapeOk(obs) ==
  /\ Len(obs) = Len(hist)
  /\ \A t \in DOMAIN hist :
       Len(obs[t]) = (IF hist[t].op # "read" THEN 0 ELSE IF hist[t].m = "all" THEN 3 ELSE 1)

OracleFails ==
  LET p == Case.py IN
  {<<"py:status", s>> : s \in {t \in DOMAIN lin : p.st[t] # lin[t].st}}
  \cup {<<"py:mro", s>> : s \in {t \in DOMAIN lin : lin[t].st = "ok" /\ p.mro[t] # lin[t].mro}}
  \cup (IF Case.kind = "hist"
         THEN IF ShapeOk(p.obs) /\ ShapeOk(Case.src.obs)
                THEN {<<"py:history-read", s>> : s \in {t \in ReadSteps : WrongAt(p.obs, t) # {}}}
                ELSE {<<"py:shape", 0>>}
         ELSE {<<"py:read", k>> : k \in {x \in DOMAIN p.reads :
                 p.reads[x][4] # Expected(p.reads[x]) \/ p.reads[x][5] # Expected(p.reads[x])}})

Fails ==
  CASE Case.kind = "hier" ->
         MroClauses("merge", Case.merge) \cup MroClauses("pytd", Case.pytd)
         \cup ErrClauses("src", ToSet(Case.src.mroerr)) \cup ReadClauses("src", Case.src.reads)
         \cup ErrClauses("stub", ToSet(Case.stub.mroerr)) \cup ReadClauses("stub", Case.stub.reads)
         \cup ErrClauses("mix", ToSet(Case.mix.mroerr)) \cup ReadClauses("mix", Case.mix.reads)
    [] Case.kind = "gen" ->
         ErrClauses("src", ToSet(Case.src.mroerr)) \cup ReadClauses("src", Case.src.reads)
         \cup ErrClauses("mix", ToSet(Case.mix.mroerr)) \cup ReadClauses("mix", Case.mix.reads)
         \cup ReadClauses("stub", Case.stub.reads)
    [] Case.kind = "hist" ->
         ErrClauses("src", ToSet(Case.src.mroerr))
         \cup (IF ShapeOk(Case.src.obs) THEN HistClauses("src", Case.src.obs) ELSE {})

(* how many of the recorded reads were judged (read through a Clean class) *)
Cov ==
  IF Case.kind = "hist"
    THEN [kind |-> "hist", judged |-> Cardinality(JudgedSteps), total |-> Cardinality(ReadSteps)]
    ELSE [kind |-> Case.kind, total |-> Len(Case.src.reads),
          judged |-> Cardinality({x \in DOMAIN Case.src.reads : Clean(hier, Case.src.reads[x][1])})]

Ok ==
  Judging =>
    /\ LET o == OracleFails IN o = {} \/ PrintT(<<"ORACLE", ToJson([i |-> i, fails |-> o])>>)
    /\ LET f == Fails IN f = {} \/ PrintT(<<"BAD", ToJson([i |-> i, fails |-> f, hist |-> hist])>>)
    /\ lin = Lin(hier) \/ PrintT(<<"ORACLE", ToJson([i |-> i, fails |-> {<<"machine", 0>>}])>>)
    /\ Case.kind = "hier" \/ PrintT(<<"COV", ToJson(Cov)>>)

Done == TLCGet(1)
=============================================================================

---------------------------- MODULE BuildPlanOps ----------------------------
(* Pure operators for C19: the whole-project build plan of pytype's analyze_project tool     *)
(* (pytype/tools/analyze_project/pytype_runner.py) and the semantics of the build tool        *)
(* (ninja) that executes it.  No variables here, so that BuildPlan.tla (the state machine)     *)
(* and TraceC19.tla (verdicts on plans produced by the real code) share every definition.     *)
(*                                                                                            *)
(* Import structure S (what importlab hands to deps_from_import_graph, SCCs collapsed):       *)
(*   S.kind[f]   kind of file f \in 1..N: "Local" | "Direct" | "System" | "Builtin" | "Stub"  *)
(*               | "SysExt"   ("Stub" = a .pyi/.pytd file in the import graph; "SysExt" = a    *)
(*               file of System provenance whose module name starts with pytype_extensions.,   *)
(*               pytype's own runtime helper package: get_module_action gives it a real infer  *)
(*               step, every other System/Builtin module gets the default stub)                *)
(*   S.req[f]    f is one of the files requested for checking (conf.inputs)                   *)
(*   S.grp[f]    index of the graph node (SCC) of f; nodes 1..K are numbered dependencies      *)
(*               first (the order in which deps_from_import_graph visits them); the files of   *)
(*               a node have consecutive ids in ascending (= sorted file name) order           *)
(*   S.gdeps[g]  the out-edges of node g: a sequence of distinct earlier node indices (the     *)
(*               order is networkx's edge order, i.e. arbitrary)                               *)
(*                                                                                            *)
(* File identities of a plan (generic: TraceC19 runs the same executor on real path strings): *)
(*   <<"src",m,0>>  <<"pyi",m,0>> (final stub)  <<"pyi",m,1>> (first pass, suffix -1)          *)
(*   <<"imports",m,p>>  <<"default",0,0>>                                                      *)
EXTENDS Naturals, Sequences, FiniteSets, SequencesExt

NONE == <<"none", 0, 0>>
DEFAULT == <<"default", 0, 0>>
Pyi(m, p) == <<"pyi", m, p>>
Src(m) == <<"src", m, 0>>
Imports(m, p) == <<"imports", m, p>>

NF(S) == Len(S.kind)
NG(S) == Len(S.gdeps)
IsStub(S, f) == S.kind[f] = "Stub"
Kinds == {"Local", "Direct", "System", "Builtin", "Stub", "SysExt"}
(* importlab's provenance class of a kind (what `module.kind` is in pytype_runner) *)
ProvenanceOf(kind) == IF kind = "SysExt" THEN "System" ELSE IF kind = "Stub" THEN "Local" ELSE kind
(* the default stub replaces a module that importlab resolved outside the project, EXCEPT the  *)
(* pytype_extensions.* modules: those are analysed like a Local module that was not requested  *)
IsDefaultKind(S, f) == ProvenanceOf(S.kind[f]) \in {"Builtin", "System"} /\ S.kind[f] # "SysExt"
Ids(n) == [x \in 1 .. n |-> x]
FilesOf(S, g) == SelectSeq(Ids(NF(S)), LAMBDA f : S.grp[f] = g)
Cat(ss) == IF ss = <<>> THEN <<>> ELSE FlattenSeq(ss)
Injective(q) == \A x, y \in DOMAIN q : x # y => q[x] # q[y]

WellFormed(S) ==
  /\ Len(S.req) = NF(S) /\ Len(S.grp) = NF(S)
  /\ \A f \in 1 .. NF(S) : S.kind[f] \in Kinds
  /\ \A f \in 1 .. NF(S) : S.grp[f] \in 1 .. NG(S)
  /\ \A f \in 1 .. NF(S) - 1 : S.grp[f + 1] \in {S.grp[f], S.grp[f] + 1}
  /\ (NF(S) > 0 => S.grp[1] = 1 /\ S.grp[NF(S)] = NG(S))
  /\ \A g \in 1 .. NG(S) : Injective(S.gdeps[g]) /\ \A x \in DOMAIN S.gdeps[g] : S.gdeps[g][x] \in 1 .. g - 1
  /\ \A f \in 1 .. NF(S) : S.req[f] => S.kind[f] \in {"Local", "Direct"}

-----------------------------------------------------------------------------
(* deps_from_import_graph: nodes visited dependencies first; stub files are not analysed, the *)
(* sources they (transitively, through other stubs) import are inherited by their importers.  *)
(* acc.s2d[f] = stubs_to_source_deps[f]; acc.mods = the result list `modules`.                 *)

FlatDeps(S, g) == Cat([x \in DOMAIN S.gdeps[g] |-> FilesOf(S, S.gdeps[g][x])])

DfgInit(S) == [s2d |-> [f \in 1 .. NF(S) |-> <<>>], mods |-> <<>>]

DfgStep(S, acc, g) ==
  LET files == FilesOf(S, g)
      stubs == SelectSeq(files, LAMBDA f : IsStub(S, f))
      srcs == SelectSeq(files, LAMBDA f : ~IsStub(S, f))
      flat == FlatDeps(S, g)          \* utils.unique_list is the identity: nodes and files are distinct
      stubdeps == SelectSeq(flat, LAMBDA f : IsStub(S, f))
      srcdeps == SelectSeq(flat, LAMBDA f : ~IsStub(S, f))
      \* source_deps followed by every stub dependency's collected sources (duplicates are kept)
      ext == srcdeps \o Cat([x \in DOMAIN stubdeps |-> acc.s2d[stubdeps[x]]])
  IN [s2d |-> [f \in 1 .. NF(S) |-> IF f \in ToSet(stubs) THEN acc.s2d[f] \o ext ELSE acc.s2d[f]],
      mods |-> IF srcs = <<>> THEN acc.mods ELSE Append(acc.mods, [group |-> srcs, deps |-> ext])]

DepsFromGraph(S) == FoldLeft(LAMBDA acc, g : DfgStep(S, acc, g), DfgInit(S), Ids(NG(S))).mods

-----------------------------------------------------------------------------
(* PytypeRunner.get_module_action / yield_sorted_modules *)

ActionOf(S, m) == IF IsDefaultKind(S, m) THEN "default" ELSE IF S.req[m] THEN "check" ELSE "infer"

YieldsOf(S, e) ==
  IF Len(e.group) = 1
    THEN << [m |-> e.group[1], action |-> ActionOf(S, e.group[1]), deps |-> e.deps, stage |-> "single"] >>
    ELSE LET first == [x \in DOMAIN e.group |->
                         [m |-> e.group[x],
                          action |-> IF ActionOf(S, e.group[x]) = "check" THEN "infer" ELSE ActionOf(S, e.group[x]),
                          deps |-> e.deps, stage |-> "first"]]
             nd == SelectSeq(e.group, LAMBDA m : ActionOf(S, m) # "default")
             second == [x \in DOMAIN nd |->
                          [m |-> nd[x], action |-> ActionOf(S, nd[x]), deps |-> e.deps \o e.group,
                           stage |-> "second"]]
         IN first \o second

Yields(S, mods) == Cat([x \in DOMAIN mods |-> YieldsOf(S, mods[x])])

-----------------------------------------------------------------------------
(* PytypeRunner.setup_build / get_imports_map / write_build_statement                          *)
(* An imports map is a Python dict: a sequence of <<key, target>> with unique keys in          *)
(* insertion order (the order of the lines of the .imports file).                             *)

DictSet(d, k, v) ==
  IF \E x \in DOMAIN d : d[x][1] = k
    THEN [x \in DOMAIN d |-> IF d[x][1] = k THEN <<k, v>> ELSE d[x]]
    ELSE Append(d, <<k, v>>)
DictUpdate(d, e) == FoldLeft(LAMBDA acc, kv : DictSet(acc, kv[1], kv[2]), d, e)

GetImportsMap(deps, m2imap, m2out) ==
  FoldLeft(LAMBDA acc, m : DictSet(DictUpdate(acc, m2imap[m]), m, m2out[m]), <<>>, deps)

ReqSet(S) == {f \in 1 .. NF(S) : S.req[f]}

PInit(S) == [files |-> {}, m2out |-> [f \in 1 .. NF(S) |-> NONE], m2imap |-> [f \in 1 .. NF(S) |-> <<>>],
             stmts |-> <<>>, err |-> FALSE]

(* one iteration of the loop in setup_build; err models the KeyError of module_to_output[m] *)
PStep(S, st, y) ==
  IF st.err \/ ReqSet(S) \subseteq st.files THEN st
  ELSE IF y.action = "default" THEN [st EXCEPT !.m2out[y.m] = DEFAULT]
  ELSE IF \E x \in DOMAIN y.deps : st.m2out[y.deps[x]] = NONE THEN [st EXCEPT !.err = TRUE]
  ELSE LET p == IF y.stage = "first" THEN 1 ELSE 0
           imap == GetImportsMap(y.deps, st.m2imap, st.m2out)
           \* "Don't depend on default.pyi, since it's regenerated every time."
           dd == SelectSeq([x \in DOMAIN y.deps |-> st.m2out[y.deps[x]]], LAMBDA o : o # DEFAULT)
           stmt == [out |-> Pyi(y.m, p), action |-> y.action, input |-> Src(y.m), deps |-> dd,
                    imports |-> Imports(y.m, p), imap |-> imap, module |-> y.m]
       IN [files |-> IF p = 0 THEN st.files \cup {y.m} ELSE st.files,
           m2out |-> [st.m2out EXCEPT ![y.m] = Pyi(y.m, p)],
           m2imap |-> [st.m2imap EXCEPT ![y.m] = imap],
           stmts |-> Append(st.stmts, stmt), err |-> FALSE]

PlanOf(S) == FoldLeft(LAMBDA st, y : PStep(S, st, y), PInit(S), Yields(S, DepsFromGraph(S)))

InitialFiles(S, P) ==
  {Src(m) : m \in {f \in 1 .. NF(S) : ~IsStub(S, f)}} \cup {DEFAULT} \cup {P[s].imports : s \in DOMAIN P}

-----------------------------------------------------------------------------
(* The build tool.  P: sequence of build statements, I: files present before the build.        *)
(* A step may start when its input and all its implicit dependencies exist; while running it   *)
(* reads its input, its imports file and every target of its imports map; finishing produces   *)
(* its output.                                                                                 *)

Outs(P) == {P[s].out : s \in DOMAIN P}
Exists(P, I, done) == I \cup {P[s].out : s \in done}
Needs(P, s) == {P[s].input} \cup ToSet(P[s].deps)
Targets(P, s) == {P[s].imap[x][2] : x \in DOMAIN P[s].imap}
Reads(P, s) == {P[s].input, P[s].imports} \cup Targets(P, s)
DepsReady(P, I, done, s) == Needs(P, s) \subseteq Exists(P, I, done)
CanStart(P, I, started, done, s) == s \notin started /\ DepsReady(P, I, done, s)
MissingReads(P, I, done, s) == Reads(P, s) \ Exists(P, I, done)

(* <<step, file>>: the step is allowed to run now although a file it reads does not exist yet *)
RBW(P, I, started, done) ==
  UNION {{<<s, f>> : f \in MissingReads(P, I, done, s)} :
           s \in {t \in DOMAIN P : CanStart(P, I, started, done, t)}}

Quiescent(P, I, started, done) ==
  started = done /\ \A s \in DOMAIN P : ~CanStart(P, I, started, done, s)
Stuck(P, I, started, done) == Quiescent(P, I, started, done) /\ done # DOMAIN P

-----------------------------------------------------------------------------
(* Static clauses of C19 on a plan AP in abstract file identities, for structure S *)

Producer(AP, f) == {s \in DOMAIN AP : AP[s].out = f}

(* files on which step s depends through declared dependencies, transitively *)
RECURSIVE Closure(_, _, _)
Closure(AP, seen, todo) ==
  IF todo = {} THEN seen
  ELSE LET f == CHOOSE x \in todo : TRUE
           more == UNION {Needs(AP, s) : s \in Producer(AP, f)}
       IN Closure(AP, seen \cup {f}, (todo \cup more) \ (seen \cup {f}))
DepClosure(AP, s) == Closure(AP, {}, Needs(AP, s))

UniqueOuts(AP) == \A s, t \in DOMAIN AP : s # t => AP[s].out # AP[t].out

WellShaped(AP) ==
  \A s \in DOMAIN AP : /\ AP[s].input = Src(AP[s].module)
                       /\ AP[s].out \in {Pyi(AP[s].module, 0), Pyi(AP[s].module, 1)}
                       /\ AP[s].imports = Imports(AP[s].module, AP[s].out[3])
                       /\ AP[s].action \in {"check", "infer"}

OneCheck(S, AP) ==
  \A m \in 1 .. NF(S) :
    Cardinality({s \in DOMAIN AP : AP[s].action = "check" /\ AP[s].module = m})
      = IF S.req[m] THEN 1 ELSE 0

TargetsProduced(AP) == \A s \in DOMAIN AP : Targets(AP, s) \subseteq {DEFAULT} \cup Outs(AP)

(* every stub a step reads is ordered before it by the declared dependencies (the static form  *)
(* of NoReadBeforeWrite: a produced target outside the closure can still be missing when the   *)
(* reader starts, because nothing outside the closure has to run first)                        *)
UndeclaredReads(AP) ==
  UNION {{<<s, f>> : f \in (Targets(AP, s) \cap Outs(AP)) \ DepClosure(AP, s)} : s \in DOMAIN AP}

(* the files of the group of m that are analysed (modules of the sorted_sources entry) *)
GroupSources(S, m) == {f \in 1 .. NF(S) : S.grp[f] = S.grp[m] /\ ~IsStub(S, f)}
TwoPass(S, m) == Cardinality(GroupSources(S, m)) > 1
Entry(AP, s, k) == {AP[s].imap[x][2] : x \in {y \in DOMAIN AP[s].imap : AP[s].imap[y][1] = k}}

(* cycles: a final statement of a cycle member sees every other member, and (transitively)     *)
(* depends on the first-pass output of every analysed member                                   *)
SecondPassFeeds(S, AP) ==
  \A s \in DOMAIN AP :
    LET m == AP[s].module IN
    (AP[s].out = Pyi(m, 0) /\ TwoPass(S, m)) =>
      \A o \in GroupSources(S, m) :
        IF IsDefaultKind(S, o) THEN Entry(AP, s, o) = {DEFAULT}
        ELSE /\ Pyi(o, 1) \in DepClosure(AP, s)
             /\ o # m => Entry(AP, s, o) \subseteq {Pyi(o, 0), Pyi(o, 1)} /\ Entry(AP, s, o) # {}

(* first-pass statements exist for every analysed member of a cycle that has a final statement *)
FirstPassExists(S, AP) ==
  \A s \in DOMAIN AP :
    LET m == AP[s].module IN
    (AP[s].out = Pyi(m, 0) /\ TwoPass(S, m)) =>
      \A o \in GroupSources(S, m) : ~IsDefaultKind(S, o) => Producer(AP, Pyi(o, 1)) # {}

(* nodes whose files node g imports: its out-edges, and the out-edges of every reached node    *)
(* that contains a stub (a stub's imports are inherited)                                       *)
RECURSIVE ReachG(_, _, _)
ReachG(S, seen, todo) ==
  IF todo = {} THEN seen
  ELSE LET h == CHOOSE x \in todo : TRUE
           more == IF \E f \in 1 .. NF(S) : S.grp[f] = h /\ IsStub(S, f) THEN ToSet(S.gdeps[h]) ELSE {}
       IN ReachG(S, seen \cup {h}, (todo \cup more) \ (seen \cup {h}))
TrueSourceDeps(S, g) ==
  {f \in 1 .. NF(S) : ~IsStub(S, f) /\ S.grp[f] \in ReachG(S, {}, ToSet(S.gdeps[g]))}

(* every statement's imports map has an entry for every source its module's node imports *)
Covers(S, AP) ==
  \A s \in DOMAIN AP :
    \A d \in TrueSourceDeps(S, S.grp[AP[s].module]) :
      IF IsDefaultKind(S, d) THEN Entry(AP, s, d) = {DEFAULT}
      ELSE Entry(AP, s, d) # {} /\ Entry(AP, s, d) \subseteq {Pyi(d, 0), Pyi(d, 1)}

(* ... and for every source those sources import in turn (an analysed module hands its own    *)
(* imports map on to its importers; default-stub modules have none)                            *)
RECURSIVE TransDeps(_, _)
TransDeps(S, g) ==
  LET D == TrueSourceDeps(S, g) IN
  D \cup UNION {TransDeps(S, S.grp[d]) : d \in {x \in D : ~IsDefaultKind(S, x)}}
CoversTransitively(S, AP) ==
  \A s \in DOMAIN AP :
    \A d \in TransDeps(S, S.grp[AP[s].module]) :
      IF IsDefaultKind(S, d) THEN Entry(AP, s, d) = {DEFAULT}
      ELSE Entry(AP, s, d) # {} /\ Entry(AP, s, d) \subseteq {Pyi(d, 0), Pyi(d, 1)}

(* a first-pass stub is used by an analysis outside its cycle (first-pass outputs exist to     *)
(* feed the second pass of their own cycle only)                                               *)
FirstPassLeaks(S, AP) ==
  {<<s, t>> \in (DOMAIN AP) \X {Pyi(m, 1) : m \in 1 .. NF(S)} :
     t \in Targets(AP, s) /\ S.grp[t[2]] # S.grp[AP[s].module]}

StaticFails(S, AP) ==
  (IF UniqueOuts(AP) THEN {} ELSE {"uniqueout"})
  \cup (IF WellShaped(AP) THEN {} ELSE {"shape"})
  \cup (IF OneCheck(S, AP) THEN {} ELSE {"onecheck"})
  \cup (IF TargetsProduced(AP) THEN {} ELSE {"targets"})
  \cup (IF UndeclaredReads(AP) = {} THEN {} ELSE {"undeclared-read"})
  \cup (IF FirstPassExists(S, AP) THEN {} ELSE {"firstpass"})
  \cup (IF SecondPassFeeds(S, AP) THEN {} ELSE {"feeds"})
  \cup (IF Covers(S, AP) THEN {} ELSE {"covers"})
  \cup (IF CoversTransitively(S, AP) THEN {} ELSE {"covers-transitive"})
  \cup (IF FirstPassLeaks(S, AP) = {} THEN {} ELSE {"leak"})

-----------------------------------------------------------------------------
(* Paths.  "Paths containing spaces, colons or dollar signs survive into the plan unchanged":  *)
(* the three directories a plan mentions (project root -> inputs; output directory -> outputs,  *)
(* declared dependencies, imports files, imports-map targets; a system directory -> inputs of   *)
(* pytype_extensions steps) are named from this family.  ninja's lexer gives `$` a meaning that *)
(* depends on the NEXT character and ends a path at an unescaped space or colon, so the family  *)
(* has every ordered pair of special characters adjacent once, and every special character      *)
(* first and last in a name (i.e. next to the path separator).                                  *)
Specials == <<" ", ":", "$">>
PairName(a, b) == "p" \o Specials[a] \o Specials[b] \o "q"
LeadName(a) == Specials[a] \o "h"
TailName(a) == "t" \o Specials[a]
AdvNames ==
  [x \in 1 .. 9 |-> PairName(((x - 1) \div 3) + 1, ((x - 1) % 3) + 1)]
    \o [a \in 1 .. 3 |-> LeadName(a)] \o [a \in 1 .. 3 |-> TailName(a)]
NAdv == Len(AdvNames)
(* the k-th assignment of names to the three roles: every name occurs once in every role, and   *)
(* the three names of an assignment are distinct (they are siblings in one directory)           *)
AdvTriple(k) == [root |-> AdvNames[(k % NAdv) + 1], out |-> AdvNames[((k + 5) % NAdv) + 1],
                 sys |-> AdvNames[((k + 10) % NAdv) + 1]]
AdvTriples == [x \in 1 .. NAdv |-> AdvTriple(x - 1)]
PlainTriple == [root |-> "root", out |-> "out", sys |-> "sys"]
(* the shell that runs a step's command line splits words at spaces and expands `$`; a colon    *)
(* means nothing to it (used for the attribution of the known shell-quoting finding)            *)
ShellSensitiveNames ==
  {AdvNames[x] : x \in {y \in 1 .. NAdv : \E a \in {1, 3}, b \in 1 .. 3 :
                          AdvNames[y] \in {PairName(a, b), PairName(b, a), LeadName(a), TailName(a)}}}
=============================================================================

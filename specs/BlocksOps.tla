------------------------------ MODULE BlocksOps ------------------------------
(* Pure operators for C16: how pytype turns the opcode list of one code object into an       *)
(* ordered block graph (pytype/blocks/blocks.py: add_pop_block_targets, _split_bytecode,      *)
(* _preprocess_async_for_and_yield, _remove_jump_back_block,                                  *)
(* _remove_jmp_to_get_anext_and_merge, compute_order; pytype/typegraph/cfg_utils.py:          *)
(* compute_predecessors, order_nodes) and what "well formed" means (property C16).            *)
(*                                                                                            *)
(* An instruction is the tuple                                                                *)
(*   <<idx, nxt, prv, tgt, arg, bt, eaft, fl, cls>>                                          *)
(*   idx  op.index (0-based, as the code stores it)                                           *)
(*   nxt, prv, tgt, bt, eaft : 1-based POSITION in the opcode list of op.next, op.prev,       *)
(*        op.target, op.block_target, op.end_async_for_target; 0 = None; -1 = an object that  *)
(*        is not in the list                                                                  *)
(*   arg  op.arg for instructions with a known jump (has_known_jump()), else 0                *)
(*   fl   bit mask of the class predicates the splitter consults                              *)
(*   cls  class tag of the opcodes the 3.12 surgery looks at (0 = any other opcode)           *)
(* Positions are 1-based so that the JSON arrays of recorded runs are TLA+ sequences.         *)
(* No VARIABLES here: Blocks.tla (step machine) and TraceC16.tla (acceptor of recorded runs)  *)
(* both EXTEND this module.                                                                   *)
EXTENDS Integers, Sequences, FiniteSets, SequencesExt, FiniteSetsExt, TLC

Idx(x) == x[1]
Nxt(x) == x[2]
Prv(x) == x[3]
Tgt(x) == x[4]
Arg(x) == x[5]
Bt(x) == x[6]
Eaft(x) == x[7]
Fl(x) == x[8]
Cls(x) == x[9]

Bit(f, b) == (f \div b) % 2 = 1
fNoNext == 1      \* Opcode.no_next()
fDoesJump == 2    \* Opcode.does_jump()  = has_jump() and not store_jump()
fKnown == 4       \* Opcode.has_known_jump() = HAS_JREL | HAS_JABS
fPops == 8        \* Opcode.pops_block()
fPushes == 16     \* Opcode.pushes_block()
fStore == 32      \* Opcode.store_jump()
fPushExc == 64    \* op.push_exc_block (a jump INTO an exception range, opcodes._add_setup_except)
NoNext(x) == Bit(Fl(x), fNoNext)
DoesJump(x) == Bit(Fl(x), fDoesJump)
KnownJump(x) == Bit(Fl(x), fKnown)
PopsBlock(x) == Bit(Fl(x), fPops)
PushesBlock(x) == Bit(Fl(x), fPushes)
StoreJump(x) == Bit(Fl(x), fStore)
PushExc(x) == Bit(Fl(x), fPushExc)

cOther == 0
cSEND == 1
cEND_SEND == 2
cGET_ANEXT == 3
cCLEANUP_THROW == 4
cJUMP_BACKWARD == 5
cJBNI == 6              \* JUMP_BACKWARD_NO_INTERRUPT
cEND_ASYNC_FOR == 7
cSETUP_EXCEPT == 8      \* SETUP_EXCEPT_311 / SETUP_FINALLY ("setup_except_op")
cPOP_BLOCK == 9
cRAISE_VARARGS == 10

SetOf(s) == {s[x] : x \in DOMAIN s}
SortedSeq(S) == SortSeq(SetToSeq(S), LAMBDA a, b : a < b)
Iota(n) == [k \in 1 .. n |-> k]

(* ------------------------------------------------------------------------------------------ *)
(* add_pop_block_targets: a depth-first walk over (instruction, block stack) that gives every  *)
(* POP_BLOCK the handler of the innermost open block and every RAISE_VARARGS the innermost     *)
(* exception handler.  `todo` is the code's LIFO list (last element = next to pop).            *)
(* Result: [bt |-> function position -> block target, crash |-> BOOLEAN].                      *)
(* crash = one of the code's assertions / attribute errors would fire (POP_BLOCK without       *)
(* block, fall off the end of the bytecode, push_exc_block with no SETUP before the target).   *)
(* ------------------------------------------------------------------------------------------ *)
RECURSIVE SetupBefore(_, _)
SetupBefore(ins, p) ==          \* `while not isinstance(setup_op, setup_except_op): setup_op = setup_op.prev`
  IF p < 1 THEN 0 ELSE IF Cls(ins[p]) = cSETUP_EXCEPT THEN p ELSE SetupBefore(ins, p - 1)

RECURSIVE InnermostHandler(_, _)
InnermostHandler(ins, st) ==    \* `for b in reversed(block_stack): if isinstance(b, setup_except_op)`
  IF st = <<>> THEN 0
  ELSE IF Cls(ins[Last(st)]) = cSETUP_EXCEPT THEN Tgt(ins[Last(st)])
  ELSE InnermostHandler(ins, Front(st))

RECURSIVE PopTargetsWalk(_, _, _, _)
PopTargetsWalk(ins, todo, seen, acc) ==
  IF todo = <<>> \/ acc.crash THEN acc
  ELSE
    LET p == Last(todo)[1]
        st == Last(todo)[2]
        rest == Front(todo)
    IN IF p \in seen THEN PopTargetsWalk(ins, rest, seen, acc)
       ELSE
         LET x == ins[p]
             isPop == Cls(x) = cPOP_BLOCK
             isRaise == Cls(x) = cRAISE_VARARGS
             isSetup == Cls(x) = cSETUP_EXCEPT
             jumps == ~isPop /\ ~isRaise /\ ~isSetup /\ ~PushesBlock(x) /\ DoesJump(x) /\ Tgt(x) > 0
             sb == IF jumps /\ PushExc(x) THEN SetupBefore(ins, Tgt(x)) ELSE 0
             crashNow == \/ isPop /\ st = <<>>
                         \/ jumps /\ PushExc(x) /\ sb = 0
                         \/ ~NoNext(x) /\ p = Len(ins)
                         \/ PushesBlock(x) /\ ~isSetup /\ Tgt(x) <= 0
             bt1 == IF isPop /\ st # <<>> THEN [acc.bt EXCEPT ![p] = Tgt(ins[Last(st)])]
                    ELSE IF isRaise THEN [acc.bt EXCEPT ![p] = InnermostHandler(ins, st)]
                    ELSE acc.bt
             \* NB the code rebinds `block_stack` when a jump enters an exception range
             \* (push_exc_block), so the fall-through successor inherits the pushed SETUP as well
             st1 == IF isPop /\ st # <<>> THEN Front(st)
                    ELSE IF isSetup \/ PushesBlock(x) THEN Append(st, p)
                    ELSE IF sb > 0 THEN Append(st, sb)
                    ELSE st
             \* pushes in the order of the code; the LAST pushed is popped first
             t1 == IF isSetup THEN Append(rest, <<Tgt(x), st>>)      \* handler sees the stack BEFORE the push
                   ELSE IF jumps THEN Append(rest, <<Tgt(x), IF sb > 0 THEN Append(st, sb) ELSE st>>)
                   ELSE rest
             t2 == IF ~NoNext(x) /\ p < Len(ins) THEN Append(t1, <<p + 1, st1>>) ELSE t1
         IN IF crashNow THEN [acc EXCEPT !.crash = TRUE]
            ELSE PopTargetsWalk(ins, t2, seen \cup {p}, [acc EXCEPT !.bt = bt1])

PopTargets(ins) ==
  IF ins = <<>> THEN [bt |-> <<>>, crash |-> FALSE]
  ELSE PopTargetsWalk(ins, << <<1, <<>> >> >>, {}, [bt |-> [p \in DOMAIN ins |-> 0], crash |-> FALSE])

(* ------------------------------------------------------------------------------------------ *)
(* compute_order up to (not including) order_nodes.                                            *)
(* t0 : position -> position of op.target when compute_order starts (the merge step retargets  *)
(*      some jumps; the recorded tgt column is the value AFTER compute_order).                 *)
(* Blocks are named by their "birth index" k in the list _split_bytecode returns.              *)
(* Result record:                                                                              *)
(*   crash   : the code would raise (KeyError/AttributeError/StopIteration/IndexError)         *)
(*   blocks  : final list of blocks handed to order_nodes, each a sequence of positions        *)
(*   edges   : set of <<i, j>> over indices of `blocks`  (Block.outgoing)                      *)
(*   tgt     : position -> target after the merge step's retargeting                           *)
(*   split   : the list _split_bytecode returned (before the two 3.12 rewrites)                *)
(*   removed : positions of blocks dropped by _remove_jump_back_block                          *)
(*   popped  : positions of JUMP_BACKWARD instructions popped by the merge step                *)
(*   merged  : indices (in `blocks`) of blocks that took part in a merge (processed_blocks)    *)
(*   ids     : Block.id of the final blocks (index of the first instruction at creation time)  *)
(* ------------------------------------------------------------------------------------------ *)
Graph(ins, t0) ==
  LET n == Len(ins)
      P == 1 .. n
      sends == {p \in P : Cls(ins[p]) = cSEND}
      jbni == [s \in sends |-> LET J == {q \in P : q > s /\ Cls(ins[q]) = cJBNI} IN
                                 IF J = {} THEN 0 ELSE Min(J)]
      \* end_block_idx, 1-based: first position after the YIELD_VALUE block
      rend == [s \in sends |-> IF jbni[s] = 0 \/ jbni[s] = n THEN 0
                               ELSE IF Cls(ins[jbni[s] + 1]) = cCLEANUP_THROW
                                      THEN jbni[s] + 2 ELSE jbni[s] + 1]
      region == UNION {(s + 1) .. (rend[s] - 1) : s \in sends}
      \* sends the main loop actually meets (not swallowed by an earlier SEND's region)
      msends == sends \ region
      crashSend == \E s \in msends : rend[s] = 0 \/ s = 1
      tg0 == {t0[p] : p \in P} \ {0}
      closes(p) == \/ NoNext(ins[p]) \/ DoesJump(ins[p]) \/ PopsBlock(ins[p])
                   \/ p = n
                   \/ (p + 1 \in tg0 /\ Cls(ins[p + 1]) # cGET_ANEXT)
      mregion == UNION {(s + 1) .. (rend[s] - 1) : s \in msends}
      starts == {1} \cup {p + 1 : p \in {q \in P \ (mregion \cup msends) : q < n /\ closes(q)}}
                    \cup msends \cup {s + 1 : s \in msends}
                    \cup {rend[s] : s \in {u \in msends : rend[u] > 0 /\ rend[u] <= n}}
      ss == SortedSeq(starts \ (mregion \ {s + 1 : s \in msends}))
      nb0 == Len(ss)
      code0 == [k \in 1 .. nb0 |->
                  LET hi == IF k < nb0 THEN ss[k + 1] ELSE n + 1 IN
                  [j \in 1 .. (hi - ss[k]) |-> ss[k] + j - 1]]
      birthOfStart(p) == CHOOSE k \in 1 .. nb0 : ss[k] = p
      \* edges added by _preprocess_async_for_and_yield: prev -> [SEND] -> [YIELD_VALUE ..]
      sendEdges == UNION {{<<birthOfStart(s) - 1, birthOfStart(s)>>,
                           <<birthOfStart(s), birthOfStart(s) + 1>>} : s \in msends}
      \* _remove_jump_back_block
      dropped(k) == LET c == code0[k]
                        l == c[Len(c)] IN
                    /\ Cls(ins[l]) = cJUMP_BACKWARD
                    /\ t0[l] > 0 /\ Cls(ins[t0[l]]) = cEND_SEND
                    /\ Len(c) >= 2 /\ Cls(ins[c[Len(c) - 1]]) = cCLEANUP_THROW
      L1 == SelectSeq(Iota(nb0), LAMBDA k : ~dropped(k))
      alive1 == SetOf(L1)
      blockOf1(p) == LET K == {k \in alive1 : ss[k] <= p /\ p < ss[k] + Len(code0[k])} IN
                     IF K = {} THEN 0 ELSE CHOOSE k \in K : TRUE
      listIdx1 == [k \in alive1 |-> CHOOSE i \in DOMAIN L1 : L1[i] = k]
      \* _remove_jmp_to_get_anext_and_merge: merge_list in block order
      mergeOps == SelectSeq(Iota(n), LAMBDA p : Eaft(ins[p]) > 0 /\ blockOf1(p) # 0)
      crashMerge == \E i \in DOMAIN mergeOps : blockOf1(Eaft(ins[mergeOps[i]])) = 0
      step(acc, p) ==
        LET bi == blockOf1(p)
            ti == blockOf1(Eaft(ins[p]))
            jb == Last(acc.code[bi])                 \* `.code.pop()`: whatever is last
            newc == Front(acc.code[bi]) \o acc.code[ti]
            li == listIdx1[ti]
        IN [code |-> [acc.code EXCEPT ![bi] = newc],
            map |-> [q \in DOMAIN acc.map \cup {jb} |->
                       IF q = jb THEN (IF bi = ti THEN newc ELSE acc.code[ti])[1] ELSE acc.map[q]],
            edges |-> IF li < Len(L1) THEN acc.edges \cup {<<bi, L1[li + 1]>>} ELSE acc.edges,
            proc |-> acc.proc \cup {bi},
            dels |-> acc.dels \cup {ti},
            popped |-> acc.popped \cup {jb}]
      m == IF crashMerge THEN [code |-> code0, map |-> <<>>, edges |-> {}, proc |-> {},
                               dels |-> {}, popped |-> {}]
           ELSE FoldLeft(step, [code |-> code0, map |-> <<>>, edges |-> {}, proc |-> {},
                                dels |-> {}, popped |-> {}], mergeOps)
      L2 == SelectSeq(L1, LAMBDA k : k \notin m.dels)
      nb == Len(L2)
      lastOf(k) == Last(m.code[k])
      retargeted == {lastOf(L2[i]) : i \in {j \in 1 .. nb : t0[lastOf(L2[j])] \in DOMAIN m.map}}
      tgtF == [p \in P |-> IF p \in retargeted THEN m.map[t0[p]] ELSE t0[p]]
      \* first_op_to_block: later blocks overwrite earlier ones with the same first op
      f2b(t) == LET I == {i \in 1 .. nb : m.code[L2[i]][1] = t} IN IF I = {} THEN 0 ELSE Max(I)
      listIdx2 == [k \in SetOf(L2) |-> CHOOSE i \in 1 .. nb : L2[i] = k]
      wants(i) ==      \* targets looked up for block i by the connect loop
        LET k == L2[i]
            f == m.code[k][1]
            l == lastOf(k) IN
        {t \in {tgtF[f], tgtF[l], Bt(ins[l])} : t > 0}
      connected == {i \in 1 .. nb : L2[i] \notin m.proc}
      crashConnect == \E i \in connected : \E t \in wants(i) : f2b(t) = 0
      connEdges == UNION {
          (IF i < nb /\ ~NoNext(ins[lastOf(L2[i])]) THEN {<<i, i + 1>>} ELSE {})
          \cup {<<i, f2b(t)>> : t \in wants(i)} : i \in connected}
      \* edges created on Block objects before the final list existed; an endpoint that is no
      \* longer in the list stays in Block.outgoing (order_nodes would raise KeyError)
      early == sendEdges \cup m.edges
      danglingEarly == \E e \in early : e[1] \in SetOf(L2) /\ e[2] \notin SetOf(L2)
      earlyIdx == {<<listIdx2[e[1]], listIdx2[e[2]]>> :
                     e \in {d \in early : d[1] \in SetOf(L2) /\ d[2] \in SetOf(L2)}}
      crash == crashSend \/ crashMerge
  IN IF n = 0 THEN [crash |-> FALSE, blocks |-> <<>>, edges |-> {}, tgt |-> <<>>, split |-> <<>>,
                    removed |-> {}, popped |-> {}, merged |-> {}, ids |-> <<>>]
     ELSE IF crash THEN [crash |-> TRUE, blocks |-> <<>>, edges |-> {}, tgt |-> t0, split |-> <<>>,
                         removed |-> {}, popped |-> {}, merged |-> {}, ids |-> <<>>]
     ELSE [crash |-> crashConnect \/ danglingEarly,
           blocks |-> [i \in 1 .. nb |-> m.code[L2[i]]],
           edges |-> IF crashConnect THEN earlyIdx ELSE connEdges \cup earlyIdx,
           tgt |-> tgtF,
           split |-> code0,
           removed |-> UNION {SetOf(code0[k]) : k \in (1 .. nb0) \ alive1},
           popped |-> m.popped,
           merged |-> {listIdx2[k] : k \in m.proc \cap SetOf(L2)},
           ids |-> [i \in 1 .. nb |-> Idx(ins[ss[L2[i]]])]]

(* ------------------------------------------------------------------------------------------ *)
(* cfg_utils.compute_predecessors / order_nodes on the graph (1..nb, E) with Block.id = id[b].  *)
(* ------------------------------------------------------------------------------------------ *)
Succ(E, a) == {e[2] : e \in {d \in E : d[1] = a}}

RECURSIVE ReachFrom(_, _, _)
ReachFrom(E, seen, frontier) ==
  IF frontier = {} THEN seen
  ELSE LET nxt == {e[2] : e \in {d \in E : d[1] \in frontier}} \ seen
       IN ReachFrom(E, seen \cup nxt, nxt)
Reachable(E, a) == ReachFrom(E, {a}, {a})      \* reflexive

(* the declarative meaning of predecessor_map: every node that can reach b (reflexive) *)
PredMap(nb, E) ==
  LET R == [a \in 1 .. nb |-> Reachable(E, a)] IN
  [b \in 1 .. nb |-> {a \in 1 .. nb : b \in R[a]}]

(* one iteration of the `while queue` loop of order_nodes.                                     *)
(* st = [q |-> set of queued nodes, pr |-> node -> its (shrinking) predecessor set,            *)
(*       order |-> sequence, seen |-> set]                                                     *)
QueueMin(st, id) ==
  CHOOSE x \in st.q : \A y \in st.q :
     \/ Cardinality(st.pr[x]) < Cardinality(st.pr[y])
     \/ (Cardinality(st.pr[x]) = Cardinality(st.pr[y]) /\ id[x] <= id[y])

OrderStep(st, E, pm, id) ==
  LET node == QueueMin(st, id)
      q1 == st.q \ {node}
  IN IF node \in st.seen THEN [st EXCEPT !.q = q1]
     ELSE LET seen1 == st.seen \cup {node}
              newq == Succ(E, node) \ q1
          IN [q |-> q1 \cup newq,
              pr |-> [x \in DOMAIN st.pr |->
                        IF x \in newq THEN pm[x] \ seen1
                        ELSE IF x \in q1 THEN st.pr[x] \ {node}
                        ELSE st.pr[x]],
              order |-> Append(st.order, node),
              seen |-> seen1]

OrderInit(pm) == [q |-> {1}, pr |-> pm, order |-> <<>>, seen |-> {}]

RECURSIVE OrderRun(_, _, _, _)
OrderRun(st, E, pm, id) == IF st.q = {} THEN st.order ELSE OrderRun(OrderStep(st, E, pm, id), E, pm, id)

OrderNodes(nb, E, id) ==
  IF nb = 0 THEN <<>> ELSE LET pm == PredMap(nb, E) IN OrderRun(OrderInit(pm), E, pm, id)

(* the assertion at the end of order_nodes *)
OrderAssert(nb, E, order) ==
  LET pm == PredMap(nb, E)
      dead == {b \in 1 .. nb : 1 \notin pm[b]} IN
  Cardinality(SetOf(order) \cup dead) = nb

(* ------------------------------------------------------------------------------------------ *)
(* The property.  A recorded (or modelled) block graph is                                       *)
(*   ins    : the instruction list (tuples as above, tgt = FINAL target)                        *)
(*   blocks : the partition handed to order_nodes (sequence of sequences of positions)         *)
(*   E      : the edge relation over block numbers that defines "predecessor"/"reachable"      *)
(*   order  : the execution order (sequence of block numbers; 0 = a block not in `blocks`)     *)
(*   elided : positions the 3.12 rewrites are specified to drop from the analysed stream       *)
(*   retgt  : positions of jumps the merge step is specified to retarget                       *)
(* WFFails = the set of names of the clauses of C16 that do not hold.                           *)
(* ------------------------------------------------------------------------------------------ *)
Occurrences(blocks, p) ==
  LET cnt(acc, b) == acc + Cardinality({j \in DOMAIN b : b[j] = p}) IN FoldLeft(cnt, 0, blocks)

WFFails(ins, blocks, E, order, elided, retgt) ==
  LET n == Len(ins)
      P == 1 .. n
      nb == Len(blocks)
      inBlocks == UNION {SetOf(blocks[b]) : b \in 1 .. nb}
      total == FoldLeft(LAMBDA acc, b : acc + Len(b), 0, blocks)
      firsts == {blocks[b][1] : b \in {c \in 1 .. nb : Len(blocks[c]) > 0}}
      reach == IF nb = 0 THEN {} ELSE Reachable(E, 1)
      ordSet == SetOf(order)
      posOf == [b \in ordSet |-> Min({k \in DOMAIN order : order[k] = b})]
      links == \A p \in P : /\ Idx(ins[p]) = p - 1
                            /\ Nxt(ins[p]) = (IF p < n THEN p + 1 ELSE 0)
                            /\ Prv(ins[p]) = p - 1
      nonempty == \A b \in 1 .. nb : Len(blocks[b]) > 0
      instream == inBlocks \subseteq P
      \* each analysed instruction is in exactly one block (and once)
      once == total = Cardinality(inBlocks)
      \* the analysed stream is the whole list except what the rewrites are specified to drop
      cover == (P \ inBlocks) \subseteq elided
      \* every resolved target of an analysed instruction starts a block
      targets == \A p \in inBlocks \cap P : Tgt(ins[p]) # 0 => Tgt(ins[p]) \in firsts
      \* every instruction with a known jump has a resolved target whose index is its argument
      jumps == \A p \in P : KnownJump(ins[p]) =>
                 /\ Tgt(ins[p]) \in P
                 /\ (Idx(ins[Tgt(ins[p])]) = Arg(ins[p]) \/ p \in retgt)
      \* order: blocks of the partition, each at most once, entry first
      ordValid == /\ ordSet \subseteq 1 .. nb
                  /\ Cardinality(ordSet) = Len(order)
                  /\ (nb > 0 => (Len(order) > 0 /\ order[1] = 1))
      \* exactly the blocks reachable from the entry
      ordReach == ordSet = reach
      \* every non-entry block has a predecessor earlier in the order
      ordPred == \A k \in 2 .. Len(order) :
                   \E e \in E : e[2] = order[k] /\ e[1] \in ordSet /\ posOf[e[1]] < k
  IN (IF links THEN {} ELSE {"links"})
     \cup (IF nonempty THEN {} ELSE {"nonempty"})
     \cup (IF instream THEN {} ELSE {"instream"})
     \cup (IF once THEN {} ELSE {"once"})
     \cup (IF cover THEN {} ELSE {"cover"})
     \cup (IF targets THEN {} ELSE {"targets"})
     \cup (IF jumps THEN {} ELSE {"jumps"})
     \cup (IF ordValid THEN {} ELSE {"order-valid"})
     \cup (IF ordValid /\ ~ordReach THEN {"order-reach"} ELSE {})
     \cup (IF ordValid /\ ~ordPred THEN {"order-pred"} ELSE {})

WellFormed(ins, blocks, E, order, elided, retgt) == WFFails(ins, blocks, E, order, elided, retgt) = {}

(* order-only part of the property (used for order_nodes on arbitrary digraphs) *)
OrderFails(nb, E, order) ==
  LET ordSet == SetOf(order)
      posOf == [b \in ordSet |-> Min({k \in DOMAIN order : order[k] = b})]
      ordValid == /\ ordSet \subseteq 1 .. nb
                  /\ Cardinality(ordSet) = Len(order)
                  /\ (nb > 0 => (Len(order) > 0 /\ order[1] = 1))
      ordReach == ordSet = (IF nb = 0 THEN {} ELSE Reachable(E, 1))
      ordPred == \A k \in 2 .. Len(order) :
                   \E e \in E : e[2] = order[k] /\ e[1] \in ordSet /\ posOf[e[1]] < k
  IN (IF ordValid THEN {} ELSE {"order-valid"})
     \cup (IF ordValid /\ ~ordReach THEN {"order-reach"} ELSE {})
     \cup (IF ordValid /\ ~ordPred THEN {"order-pred"} ELSE {})
=============================================================================

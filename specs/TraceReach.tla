----------------------------- MODULE TraceReach -----------------------------
(* Code -> spec: histories replayed on the real cfg.Program with the rows that             *)
(* Program.is_reachable reported after each step.  The spec state is advanced by Reach's   *)
(* own actions; the recorded rows must equal the spec's forward-reach sets (C09).          *)
EXTENDS Reach, IOUtils, TLCExt

Cases == JsonDeserialize(IOEnv.TRACE_FILE)

VARIABLES i, k
tvars == <<vars, i, k>>
ToSet(s) == {s[x] : x \in DOMAIN s}

TInit == Init /\ i = 1 /\ k = 0 /\ TLCSet(1, FALSE)

Step ==
  /\ i <= Len(Cases) /\ k < Len(Cases[i].ops)
  /\ LET op == Cases[i].ops[k + 1] IN
       IF op[1] = "node" THEN NewNode ELSE ConnectTo(op[2], op[3])
  /\ k' = k + 1 /\ i' = i

NextCase ==
  /\ i <= Len(Cases) /\ k = Len(Cases[i].ops)
  /\ i' = i + 1 /\ k' = 0
  /\ num' = 0 /\ adj' = <<>> /\ edges' = {} /\ fwd' = <<>> /\ hist' = <<>>
  /\ (i' > Len(Cases) => TLCSet(1, TRUE))

TNext == Step \/ NextCase

(* the verdict: every recorded row equals the set of nodes truly reachable *)
Ok ==
  (i <= Len(Cases) /\ k >= 1) =>
     \A x \in DOMAIN Cases[i].obs[k] :
        LET r == Cases[i].obs[k][x] IN fwd[r[1]] = ToSet(r[2])

(* operational model agreement (bucketed matrix == abstract sets), W = 64 *)
ModelAgrees == \A a \in Node : {b \in Node : ImplReach(a, b)} = fwd[a]

Done == TLCGet(1)
=============================================================================

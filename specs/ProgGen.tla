------------------------------ MODULE ProgGen ------------------------------
(* Generator of well-scoped, loop-free Python programs as a state machine (C01, C04, C06).     *)
(* State: the statement terms emitted so far and the scope (names with their kind).  One       *)
(* action per statement form; expressions are drawn from the scope-aware grammar RandExpr by   *)
(* TLC's RandomElement, so `tlc -simulate` yields one random successor per step and a          *)
(* behaviour is one program, reproducible from (seed, index).                                  *)
(*                                                                                            *)
(* Expression terms                                                                            *)
(*   <<"lit", k>>  k in int str float bool none      <<"name", x>>                             *)
(*   <<"list", es>> <<"tuple", es>> <<"set", es>> <<"dict", k, v>>                              *)
(*   <<"add", a, b>> <<"cond", t, a, b>> <<"or", a, b>> <<"and", a, b>> <<"not", a>>            *)
(*   <<"cmp", a, b>> <<"isnone", a>> <<"isinst", a, c>>                                         *)
(*   <<"call", f, args>> <<"attr", a, n>> <<"meth", a, m>> <<"sub", a>> <<"bcall", b, a>>       *)
(*   <<"lambda", body>> (parameter p1)   <<"lcomp", elem, src>> (variable v over a literal)    *)
(* Statement terms                                                                             *)
(*   <<"assign", x, e>>   <<"if", t, x, e1, e2>>  (x bound in both branches)                    *)
(*   <<"ifonly", t, x, e>> (x must already be bound)                                           *)
(*   <<"def", f, n, t, e1, e2>>   def f(p1..pn): if t: return e1 / return e2                    *)
(*   <<"class", C, bases, cattrs, n, iattrs, meths>>                                            *)
(*   <<"try", x, e1, e2>>   try: x = e1 except Exception: x = e2                                *)
EXTENDS Naturals, Sequences, FiniteSets, TLC, Json

CONSTANTS MaxStmts,   \* statements per program
          Depth       \* expression depth

VARIABLES stmts, scope, done
vars == <<stmts, scope, done>>

VarNames == {"x1", "x2", "x3", "x4", "x5", "x6"}
FnNames == {"f1", "f2", "f3"}
ClsNames == {"K1", "K2", "K3"}
Builtin1 == {"len", "str", "repr", "bool", "list", "tuple", "type", "abs", "sorted"}
LitKinds == {"int", "str", "float", "bool", "none"}

Names(kind) == {s[1] : s \in {x \in scope : x[2] = kind}}
Arity(f) == (CHOOSE s \in scope : s[1] = f)[3]
Pick(S) == RandomElement(S)
PickSeq(q) == q[RandomElement(1 .. Len(q))]          \* weighted choice
SeqToSetOf(q) == {q[k] : k \in DOMAIN q}

(* (a parameter keeps TLC from folding the random pick into a constant) *)
Lit(u) == <<"lit", Pick(LitKinds)>>

(* atoms available with the given parameter names in scope *)
Atom(params) ==
  LET vs == Names("var") \cup params IN
  IF vs # {} /\ Pick(1 .. 3) # 1 THEN <<"name", Pick(vs)>> ELSE Lit(params)

(* TLC re-evaluates a LET-bound RandomElement at every use, so every random pick that is used   *)
(* more than once is bound by a quantifier / set-comprehension binder over a singleton set.     *)
One(S) == CHOOSE x \in S : TRUE

RECURSIVE RandExpr(_, _)
RandArgs(n, d, params) ==
  IF n = 0 THEN <<>> ELSE IF n = 1 THEN <<RandExpr(d, params)>>
  ELSE <<RandExpr(d, params), RandExpr(d, params)>>

Fns == Names("fn") \cup Names("lam")
Kinds ==
  <<"atom", "atom", "list", "tuple", "dict", "set", "add", "cond", "or", "and",
    "not", "cmp", "isnone", "sub", "bcall", "attr", "lcomp">>
  \o (IF Fns # {} THEN <<"call", "call", "call">> ELSE <<>>)
  \o (IF Names("cls") # {} THEN <<"new", "new", "meth", "meth", "isinst">> ELSE <<>>)

ExprOfKind(k, d, params) ==
  CASE k = "atom" -> Atom(params)
    [] k = "list" -> One({<<"list", RandArgs(n, d - 1, params)>> : n \in {Pick(0 .. 2)}})
    [] k = "tuple" -> One({<<"tuple", RandArgs(n, d - 1, params)>> : n \in {Pick(0 .. 2)}})
    [] k = "set" -> <<"set", <<Lit(params)>>>>
    [] k = "dict" -> <<"dict", <<"lit", Pick({"int", "str"})>>, RandExpr(d - 1, params)>>
    [] k = "add" -> <<"add", RandExpr(d - 1, params), RandExpr(d - 1, params)>>
    [] k = "cond" -> <<"cond", RandExpr(d - 1, params), RandExpr(d - 1, params), RandExpr(d - 1, params)>>
    [] k = "or" -> <<"or", RandExpr(d - 1, params), RandExpr(d - 1, params)>>
    [] k = "and" -> <<"and", RandExpr(d - 1, params), RandExpr(d - 1, params)>>
    [] k = "not" -> <<"not", RandExpr(d - 1, params)>>
    [] k = "cmp" -> <<"cmp", RandExpr(d - 1, params), RandExpr(d - 1, params)>>
    [] k = "isnone" -> <<"isnone", RandExpr(d - 1, params)>>
    [] k = "sub" -> <<"sub", RandExpr(d - 1, params)>>
    [] k = "bcall" -> <<"bcall", Pick(Builtin1), RandExpr(d - 1, params)>>
    [] k = "attr" -> <<"attr", RandExpr(d - 1, params), Pick({"a", "b"})>>
    [] k = "lcomp" -> <<"lcomp", RandExpr(d - 1, params \cup {"v"}), <<"list", <<Lit(params), Lit(d)>>>>>>
    [] k = "call" -> One({<<"call", f, RandArgs(Arity(f), d - 1, params)>> : f \in {Pick(Fns)}})
    [] k = "new" -> One({<<"call", c, RandArgs(Arity(c), d - 1, params)>> : c \in {Pick(Names("cls"))}})
    [] k = "meth" -> <<"meth", RandExpr(d - 1, params), Pick({"m", "n"})>>
    [] k = "isinst" -> <<"isinst", RandExpr(d - 1, params), Pick(Names("cls"))>>

RandExpr(d, params) ==
  IF d = 0 THEN Atom(params)
  ELSE One({ExprOfKind(k, d, params) : k \in {PickSeq(Kinds)}})

Emit(s) == stmts' = Append(stmts, s)
Bind(name, kind, ar) ==
  scope' = {x \in scope : x[1] # name} \cup {<<name, kind, ar>>}

Assign ==
  \E x \in {Pick(VarNames)} :
    Emit(<<"assign", x, RandExpr(Depth, {})>>) /\ Bind(x, "var", 0)

IfBoth ==
  \E x \in {Pick(VarNames)} :
    /\ Emit(<<"if", RandExpr(Depth - 1, {}), x, RandExpr(Depth, {}), RandExpr(Depth, {})>>)
    /\ Bind(x, "var", 0)

IfOnly ==
  /\ Names("var") # {}
  /\ \E x \in {Pick(Names("var"))} :
       Emit(<<"ifonly", RandExpr(Depth - 1, {}), x, RandExpr(Depth, {})>>) /\ UNCHANGED scope

Try ==
  \E x \in {Pick(VarNames)} :
    Emit(<<"try", x, RandExpr(Depth, {}), RandExpr(Depth - 1, {})>>) /\ Bind(x, "var", 0)

Params(n) == IF n = 0 THEN {} ELSE IF n = 1 THEN {"p1"} ELSE {"p1", "p2"}

Def ==
  \E f \in {Pick(FnNames)}, n \in {Pick(0 .. 2)} :
    /\ Emit(<<"def", f, n, RandExpr(Depth - 1, Params(n)), RandExpr(Depth, Params(n)),
              RandExpr(Depth, Params(n))>>)
    /\ Bind(f, "fn", n)

Lambda ==
  \E f \in {Pick(FnNames)} :
    Emit(<<"assign", f, <<"lambda", RandExpr(Depth, {"p1"})>>>>) /\ Bind(f, "lam", 1)

Bases(c) ==
  LET others == Names("cls") \ {c} IN
  IF others = {} THEN {<<>>}
  ELSE {<<>>} \cup {<<b>> : b \in others}
       \cup {<<q[1], q[2]>> : q \in {r \in others \X others : r[1] # r[2]}}

(* a class name is defined once per program: a stub cannot express two different classes of one   *)
(* name (an earlier class used as a base of a later one and then rebound)                        *)
FreshCls == ClsNames \ Names("cls")
Class ==
  \E c \in {Pick(FreshCls)}, n \in {Pick(0 .. 1)}, qa \in {Pick(0 .. 1)}, qi \in {Pick(0 .. 2)},
     qm \in {Pick(0 .. 2)} :
   \E bases \in {Pick(Bases(c))} :
    /\ Emit(<<"class", c, bases,
              IF qa = 0 THEN <<>> ELSE <<<<Pick({"a", "b"}), RandExpr(Depth - 1, {})>>>>,
              n,
              IF qi = 0 THEN <<>>
              ELSE IF qi = 1 THEN <<<<Pick({"a", "b"}), RandExpr(Depth - 1, Params(n) \cup {"self"})>>>>
              ELSE <<<<"a", RandExpr(Depth - 1, Params(n) \cup {"self"})>>,
                     <<"b", RandExpr(Depth - 1, Params(n) \cup {"self"})>>>>,
              IF qm = 0 THEN <<>>
              ELSE IF qm = 1 THEN <<<<Pick({"m", "n"}), RandExpr(Depth - 1, {"self"})>>>>
              ELSE <<<<"m", RandExpr(Depth - 1, {"self"})>>, <<"n", RandExpr(Depth - 1, {"self"})>>>>>>)
    /\ Bind(c, "cls", n)

Finish == done' = TRUE /\ UNCHANGED <<stmts, scope>>

Init == stmts = <<>> /\ scope = {} /\ done = FALSE

StmtKinds == <<"assign", "assign", "assign", "if", "ifonly", "try", "def", "def", "lambda",
               "class", "class">>

Next ==
  /\ ~done
  /\ IF Len(stmts) >= MaxStmts THEN Finish
     ELSE /\ done' = FALSE
          /\ \E k \in {PickSeq(StmtKinds)} :
             CASE k = "assign" -> Assign
               [] k = "if" -> IfBoth
               [] k = "ifonly" -> IF Names("var") # {} THEN IfOnly ELSE Assign
               [] k = "try" -> Try
               [] k = "def" -> Def
               [] k = "lambda" -> Lambda
               [] k = "class" -> IF FreshCls # {} THEN Class ELSE Assign

Spec == Init /\ [][Next]_vars

(* well-scopedness of what was emitted: every free name of every statement is bound earlier.   *)
RECURSIVE FreeNames(_)
FreeNames(e) ==
  CASE e[1] = "lit" -> {}
    [] e[1] = "name" -> {e[2]}
    [] e[1] \in {"list", "tuple", "set"} -> UNION {FreeNames(e[2][k]) : k \in DOMAIN e[2]}
    [] e[1] = "dict" -> FreeNames(e[3])
    [] e[1] \in {"add", "or", "and", "cmp"} -> FreeNames(e[2]) \cup FreeNames(e[3])
    [] e[1] = "cond" -> FreeNames(e[2]) \cup FreeNames(e[3]) \cup FreeNames(e[4])
    [] e[1] \in {"not", "isnone", "sub"} -> FreeNames(e[2])
    [] e[1] = "isinst" -> FreeNames(e[2]) \cup {e[3]}
    [] e[1] = "bcall" -> FreeNames(e[3])
    [] e[1] \in {"attr", "meth"} -> FreeNames(e[2])
    [] e[1] = "call" -> {e[2]} \cup UNION {FreeNames(e[3][k]) : k \in DOMAIN e[3]}
    [] e[1] = "lambda" -> FreeNames(e[2]) \ {"p1"}
    [] e[1] = "lcomp" -> (FreeNames(e[2]) \ {"v"}) \cup FreeNames(e[3])

BoundBefore(k) ==
  {stmts[j][2] : j \in {j \in 1 .. k - 1 : stmts[j][1] \in {"assign", "def", "class", "try"}}}
  \cup {stmts[j][3] : j \in {j \in 1 .. k - 1 : stmts[j][1] = "if"}}

StmtFree(s) ==
  CASE s[1] = "assign" -> FreeNames(s[3])
    [] s[1] = "if" -> FreeNames(s[2]) \cup FreeNames(s[4]) \cup FreeNames(s[5])
    [] s[1] = "ifonly" -> FreeNames(s[2]) \cup FreeNames(s[4]) \cup {s[3]}
    [] s[1] = "try" -> FreeNames(s[3]) \cup FreeNames(s[4])
    [] s[1] = "def" -> (FreeNames(s[4]) \cup FreeNames(s[5]) \cup FreeNames(s[6])) \ {"p1", "p2"}
    [] s[1] = "class" ->
         SeqToSetOf(s[3])
         \cup UNION {FreeNames(s[4][k][2]) : k \in DOMAIN s[4]}
         \cup (UNION {FreeNames(s[6][k][2]) : k \in DOMAIN s[6]} \ {"p1", "self"})
         \cup (UNION {FreeNames(s[7][k][2]) : k \in DOMAIN s[7]} \ {"self"})

WellScoped == \A k \in DOMAIN stmts : StmtFree(stmts[k]) \subseteq BoundBefore(k)

ExportInv == done => PrintT(<<"CASE", ToJson([p |-> stmts])>>)
=============================================================================

------------------------------ MODULE ProgGen ------------------------------
(* Generator of well-scoped, loop-free Python programs as a state machine (C01, C04, C06).     *)
(* State: the statement terms emitted so far and the scope (names with their kind).  One       *)
(* action per statement form; expressions are drawn from the scope-aware grammar RandExpr by   *)
(* TLC's RandomElement, so `tlc -simulate` yields one random successor per step and a          *)
(* behaviour is one program, reproducible from (seed, index).                                  *)
(*                                                                                            *)
(* Expression terms                                                                            *)
(*   <<"lit", k>>  k in int str float bool none      <<"name", x>>                             *)
(*   <<"list", es>> <<"tuple", es>> <<"set", es>> <<"dict", k, v>>                              *)
(*   <<"add", a, b>> <<"cond", t, a, b>> <<"or", a, b>> <<"and", a, b>> <<"not", a>>            *)
(*   <<"cmp", a, b>> <<"isnone", a>> <<"isinst", a, c>>                                         *)
(*   <<"call", f, args>> <<"attr", a, n>> <<"meth", a, m>> <<"sub", a>> <<"bcall", b, a>>       *)
(*   <<"lambda", body>> (parameter p1)   <<"lcomp", elem, src>> (variable v over a literal)    *)
(* Statement terms                                                                             *)
(*   <<"assign", x, e>>   <<"if", t, x, e1, e2>>  (x bound in both branches)                    *)
(*   <<"ifonly", t, x, e>> (x must already be bound)                                           *)
(*   <<"def", f, n, t, e1, e2>>   def f(p1..pn): if t: return e1 / return e2                    *)
(*   <<"class", C, bases, cattrs, n, iattrs, meths>>                                            *)
(*   <<"try", x, e1, e2>>   try: x = e1 except Exception: x = e2                                *)
(*                                                                                            *)
(* SECOND FAMILY (switches Mutation / Match, both FALSE unless the configuration overrides     *)
(* them with `CONSTANTS Mutation <- On  Match <- On`; with both off every configuration        *)
(* generates exactly the programs it generated before the family was added):                   *)
(* places   pl ::= <<"name", x>> | <<"attr", <<"name", x>>, a>> | <<"sub", <<"name", x>>>>       *)
(* expressions  <<"split", k>> k in empty one two ("".split() ...: a list of unknown length)     *)
(*   <<"dict0">> ({})   <<"mx", e, m, args>> (e.m(args) as a value: pop copy get setdefault)     *)
(*   <<"slice", e, k>> (e[1:] / e[:1])      literal kinds "zero" (0) and "empty" ("")            *)
(* statements that MUTATE an object reachable from a name or a parameter                        *)
(*   <<"setitem", pl, key, e>>  pl[key] = e      <<"delitem", pl, key>>  del pl[key]              *)
(*   <<"setattr", pl, a, e>>    pl.a = e         <<"augadd", pl, e>>     pl += e                  *)
(*   <<"mcall", pl, m, args>>   pl.m(args)  (append extend insert add update pop clear            *)
(*                              setdefault remove)    <<"expr", e>>  an expression statement      *)
(*   <<"mdef", f, n, star, body, t, e1, e2>>   def f(p1..pn[, *ps]): body (mutation statements  *)
(*        over the parameters and the globals); if t: return e1 / return e2                      *)
(*   actions TwinCall / Probe call one function several times, TwinCall with FRESH arguments     *)
(*   that are the same term (two different objects that look the same before the call)           *)
(* match statements                                                                             *)
(*   <<"match", x, subj, cases>>   cases = << <<pat, guard, e>> .. >>: match subj: case pat      *)
(*        [if guard]: x = e                                                                      *)
(*   <<"matchdef", f, n, star, subj, cases, e>>  def f(..): match subj: case ..: return ei / return e *)
(*   patterns <<"pval", lit>> <<"pwild">> <<"pcap", c>> <<"pseq", "l"|"t", ps>>                   *)
(*     <<"pstar", pre, c|"_", post>> <<"pmap", <<<<keylit, p>>..>>, rest|"">>                      *)
(*     <<"pcls", C, pos, <<<<attr, p>>..>>>> <<"por", p, q>> <<"pas", p, c>>; guard <<"noguard">>   *)
(*     or an expression; capture names are derived from the position (unique per pattern)        *)
EXTENDS Naturals, Sequences, FiniteSets, TLC, Json

CONSTANTS MaxStmts,   \* statements per program
          Depth       \* expression depth

VARIABLES stmts, scope, done
vars == <<stmts, scope, done>>

VarNames == {"x1", "x2", "x3", "x4", "x5", "x6"}
FnNames == {"f1", "f2", "f3"}
ClsNames == {"K1", "K2", "K3"}
Builtin1 == {"len", "str", "repr", "bool", "list", "tuple", "type", "abs", "sorted"}
LitKinds == {"int", "str", "float", "bool", "none"}

(* switches of the second family: definitions, so that configurations written before they existed *)
(* keep working; a configuration turns them on with `CONSTANTS Mutation <- On  Match <- On`        *)
Mutation == FALSE
Match == FALSE
On == TRUE

Names(kind) == {s[1] : s \in {x \in scope : x[2] = kind}}
Arity(f) == (CHOOSE s \in scope : s[1] = f)[3]
Pick(S) == RandomElement(S)
PickSeq(q) == q[RandomElement(1 .. Len(q))]          \* weighted choice
SeqToSetOf(q) == {q[k] : k \in DOMAIN q}

(* (a parameter keeps TLC from folding the random pick into a constant) *)
Lit(u) == <<"lit", Pick(LitKinds)>>

(* atoms available with the given parameter names in scope *)
Atom(params) ==
  LET vs == Names("var") \cup params IN
  IF vs # {} /\ Pick(1 .. 3) # 1 THEN <<"name", Pick(vs)>> ELSE Lit(params)

(* TLC re-evaluates a LET-bound RandomElement at every use, so every random pick that is used   *)
(* more than once is bound by a quantifier / set-comprehension binder over a singleton set.     *)
One(S) == CHOOSE x \in S : TRUE

RECURSIVE RandExpr(_, _)
RandArgs(n, d, params) ==
  IF n = 0 THEN <<>> ELSE IF n = 1 THEN <<RandExpr(d, params)>>
  ELSE <<RandExpr(d, params), RandExpr(d, params)>>

Fns == Names("fn") \cup Names("lam") \cup Names("mfn")
Kinds ==
  <<"atom", "atom", "list", "tuple", "dict", "set", "add", "cond", "or", "and",
    "not", "cmp", "isnone", "sub", "bcall", "attr", "lcomp">>
  \o (IF Fns # {} THEN <<"call", "call", "call">> ELSE <<>>)
  \o (IF Names("cls") # {} THEN <<"new", "new", "meth", "meth", "isinst">> ELSE <<>>)
  \o (IF Mutation \/ Match THEN <<"split", "dict0", "mx", "slice">> ELSE <<>>)

MxOf(e, d, params) ==
  One({CASE m = "get" -> <<"mx", e, m, <<<<"lit", Pick({"int", "str"})>>>>>>
         [] m = "setdefault" -> <<"mx", e, m, <<<<"lit", Pick({"int", "str"})>>, RandExpr(d, params)>>>>
         [] OTHER -> <<"mx", e, m, <<>>>>
       : m \in {Pick({"pop", "copy", "get", "setdefault"})}})

ExprOfKind(k, d, params) ==
  CASE k = "atom" -> Atom(params)
    [] k = "list" -> One({<<"list", RandArgs(n, d - 1, params)>> : n \in {Pick(0 .. 2)}})
    [] k = "tuple" -> One({<<"tuple", RandArgs(n, d - 1, params)>> : n \in {Pick(0 .. 2)}})
    [] k = "set" -> <<"set", <<Lit(params)>>>>
    [] k = "dict" -> <<"dict", <<"lit", Pick({"int", "str"})>>, RandExpr(d - 1, params)>>
    [] k = "add" -> <<"add", RandExpr(d - 1, params), RandExpr(d - 1, params)>>
    [] k = "cond" -> <<"cond", RandExpr(d - 1, params), RandExpr(d - 1, params), RandExpr(d - 1, params)>>
    [] k = "or" -> <<"or", RandExpr(d - 1, params), RandExpr(d - 1, params)>>
    [] k = "and" -> <<"and", RandExpr(d - 1, params), RandExpr(d - 1, params)>>
    [] k = "not" -> <<"not", RandExpr(d - 1, params)>>
    [] k = "cmp" -> <<"cmp", RandExpr(d - 1, params), RandExpr(d - 1, params)>>
    [] k = "isnone" -> <<"isnone", RandExpr(d - 1, params)>>
    [] k = "sub" -> <<"sub", RandExpr(d - 1, params)>>
    [] k = "bcall" -> <<"bcall", Pick(Builtin1), RandExpr(d - 1, params)>>
    [] k = "attr" -> <<"attr", RandExpr(d - 1, params), Pick({"a", "b"})>>
    [] k = "lcomp" -> <<"lcomp", RandExpr(d - 1, params \cup {"v"}), <<"list", <<Lit(params), Lit(d)>>>>>>
    [] k = "call" -> One({<<"call", f, RandArgs(Arity(f), d - 1, params)>> : f \in {Pick(Fns)}})
    [] k = "new" -> One({<<"call", c, RandArgs(Arity(c), d - 1, params)>> : c \in {Pick(Names("cls"))}})
    [] k = "meth" -> <<"meth", RandExpr(d - 1, params), Pick({"m", "n"})>>
    [] k = "isinst" -> <<"isinst", RandExpr(d - 1, params), Pick(Names("cls"))>>
    [] k = "split" -> <<"split", Pick({"empty", "one", "two"})>>
    [] k = "dict0" -> <<"dict0">>
    [] k = "mx" -> MxOf(Atom(params), d - 1, params)
    [] k = "slice" -> <<"slice", RandExpr(d - 1, params), Pick({"tail", "head"})>>

RandExpr(d, params) ==
  IF d = 0 THEN Atom(params)
  ELSE One({ExprOfKind(k, d, params) : k \in {PickSeq(Kinds)}})

Emit(s) == stmts' = Append(stmts, s)
Bind(name, kind, ar) ==
  scope' = {x \in scope : x[1] # name} \cup {<<name, kind, ar>>}

Assign ==
  \E x \in {Pick(VarNames)} :
    Emit(<<"assign", x, RandExpr(Depth, {})>>) /\ Bind(x, "var", 0)

IfBoth ==
  \E x \in {Pick(VarNames)} :
    /\ Emit(<<"if", RandExpr(Depth - 1, {}), x, RandExpr(Depth, {}), RandExpr(Depth, {})>>)
    /\ Bind(x, "var", 0)

IfOnly ==
  /\ Names("var") # {}
  /\ \E x \in {Pick(Names("var"))} :
       Emit(<<"ifonly", RandExpr(Depth - 1, {}), x, RandExpr(Depth, {})>>) /\ UNCHANGED scope

Try ==
  \E x \in {Pick(VarNames)} :
    Emit(<<"try", x, RandExpr(Depth, {}), RandExpr(Depth - 1, {})>>) /\ Bind(x, "var", 0)

Params(n) == IF n = 0 THEN {} ELSE IF n = 1 THEN {"p1"} ELSE {"p1", "p2"}

Def ==
  \E f \in {Pick(FnNames)}, n \in {Pick(0 .. 2)} :
    /\ Emit(<<"def", f, n, RandExpr(Depth - 1, Params(n)), RandExpr(Depth, Params(n)),
              RandExpr(Depth, Params(n))>>)
    /\ Bind(f, "fn", n)

Lambda ==
  \E f \in {Pick(FnNames)} :
    Emit(<<"assign", f, <<"lambda", RandExpr(Depth, {"p1"})>>>>) /\ Bind(f, "lam", 1)

Bases(c) ==
  LET others == Names("cls") \ {c} IN
  IF others = {} THEN {<<>>}
  ELSE {<<>>} \cup {<<b>> : b \in others}
       \cup {<<q[1], q[2]>> : q \in {r \in others \X others : r[1] # r[2]}}

(* a class name is defined once per program: a stub cannot express two different classes of one   *)
(* name (an earlier class used as a base of a later one and then rebound)                        *)
FreshCls == ClsNames \ Names("cls")
Class ==
  \E c \in {Pick(FreshCls)}, n \in {Pick(0 .. 1)}, qa \in {Pick(0 .. 1)}, qi \in {Pick(0 .. 2)},
     qm \in {Pick(0 .. 2)} :
   \E bases \in {Pick(Bases(c))} :
    /\ Emit(<<"class", c, bases,
              IF qa = 0 THEN <<>> ELSE <<<<Pick({"a", "b"}), RandExpr(Depth - 1, {})>>>>,
              n,
              IF qi = 0 THEN <<>>
              ELSE IF qi = 1 THEN <<<<Pick({"a", "b"}), RandExpr(Depth - 1, Params(n) \cup {"self"})>>>>
              ELSE <<<<"a", RandExpr(Depth - 1, Params(n) \cup {"self"})>>,
                     <<"b", RandExpr(Depth - 1, Params(n) \cup {"self"})>>>>,
              IF qm = 0 THEN <<>>
              ELSE IF qm = 1 THEN <<<<Pick({"m", "n"}), RandExpr(Depth - 1, {"self"})>>>>
              ELSE <<<<"m", RandExpr(Depth - 1, {"self"})>>, <<"n", RandExpr(Depth - 1, {"self"})>>>>>>)
    /\ Bind(c, "cls", n)

(* ======================= second family: mutation and match =================================== *)
ParamsX(n, star) == Params(n) \cup (IF star THEN {"ps"} ELSE {})
Max(S) == CHOOSE m \in S : \A n \in S : n <= m
BindMany(N) == scope' = {s \in scope : s[1] \notin N} \cup {<<n, "var", 0>> : n \in N}

(* syntactic shape of the value a module-level variable holds (a heuristic that makes mutations   *)
(* that CPython accepts frequent; ill-typed ones still occur and are dropped by the executor)      *)
BindIdx(x) == {k \in DOMAIN stmts : (stmts[k][1] \in {"assign", "try", "match"} /\ stmts[k][2] = x)
                                     \/ (stmts[k][1] \in {"if", "ifonly"} /\ stmts[k][3] = x)}
ExprShape(e) ==
  CASE e[1] \in {"list", "lcomp", "split"} -> "list"
    [] e[1] = "bcall" -> IF e[2] \in {"list", "sorted"} THEN "list" ELSE "unk"
    [] e[1] \in {"dict", "dict0"} -> "dict"
    [] e[1] = "set" -> "set"
    [] e[1] = "call" -> IF e[2] \in Names("cls") THEN "inst" ELSE "unk"
    [] OTHER -> "unk"
ShapeOfVar(x) ==
  IF BindIdx(x) = {} THEN "unk"
  ELSE LET s == stmts[Max(BindIdx(x))] IN IF s[1] = "assign" THEN ExprShape(s[3]) ELSE "unk"

MutKindsAll == <<"setitem", "setitem", "setitem0", "append", "append", "add", "update", "extend", "pop",
                 "clear", "setdefault", "insert", "setattr", "setattr", "augadd", "delitem", "pop1">>
MutKindsFor(sh) ==
  CASE sh = "list" -> <<"append", "append", "extend", "insert", "pop", "clear", "setitem0", "augadd",
                        "remove", "delitem0">>
    [] sh = "dict" -> <<"setitem", "setitem", "setdefault", "update", "pop1", "clear", "delitem">>
    [] sh = "set" -> <<"add", "add", "update", "clear">>
    [] sh = "inst" -> <<"setattr">>
    [] OTHER -> MutKindsAll

(* the object itself, seldom one of its attributes or its first element (sh: shape of what x holds) *)
PlaceOn(x, sh) ==
  One({IF q = 1 /\ sh = "unk" THEN <<"attr", <<"name", x>>, Pick({"a", "b"})>>
       ELSE IF q = 2 /\ sh \in {"unk", "list"} THEN <<"sub", <<"name", x>>>> ELSE <<"name", x>>
       : q \in {Pick(1 .. 10)}})
ContainerExpr(d, params) ==
  One({ExprOfKind(k, d, params) : k \in {Pick({"list", "dict", "set", "tuple"})}})
KeyLit(u) == <<"lit", Pick({"int", "str"})>>
(* a value: half of the time an atom (so that the statement around it usually survives execution) *)
ValExpr(d, params) == IF Pick(1 .. 2) = 1 THEN Atom(params) ELSE RandExpr(d, params)

(* one mutation statement of kind k on place pl; expressions of depth d over params *)
MutOfKind(k, pl, d, params) ==
  CASE k = "setitem" -> <<"setitem", pl, KeyLit(d), ValExpr(d, params)>>
    [] k = "setitem0" -> <<"setitem", pl, <<"lit", "zero">>, ValExpr(d, params)>>
    [] k = "delitem" -> <<"delitem", pl, KeyLit(d)>>
    [] k = "delitem0" -> <<"delitem", pl, <<"lit", "zero">>>>
    [] k = "setattr" -> <<"setattr", pl, Pick({"a", "b"}), ValExpr(d, params)>>
    [] k = "augadd" -> <<"augadd", pl, ContainerExpr(d, params)>>
    [] k \in {"pop", "clear"} -> <<"mcall", pl, k, <<>>>>
    [] k = "pop1" -> <<"mcall", pl, "pop", <<KeyLit(d)>>>>
    [] k = "setdefault" -> <<"mcall", pl, "setdefault", <<KeyLit(d), ValExpr(d, params)>>>>
    [] k = "insert" -> <<"mcall", pl, "insert", <<<<"lit", "zero">>, ValExpr(d, params)>>>>
    [] k \in {"update", "extend"} -> <<"mcall", pl, k, <<ContainerExpr(d, params)>>>>
    [] OTHER -> <<"mcall", pl, k, <<ValExpr(d, params)>>>>          \* append add remove

FreshOf(dom) ==
  CASE dom = "list" -> <<"list", IF Pick(1 .. 2) = 1 THEN <<>> ELSE <<Lit(dom)>>>>
    [] dom = "list1" -> <<"list", <<Lit(dom)>>>>
    [] dom = "nest" -> <<"list", <<PickSeq(<< <<"list", <<>>>>, <<"dict0">>, <<"list", <<Lit(dom)>>>> >>)>>>>
    [] dom = "dict" -> IF Pick(1 .. 2) = 1 THEN <<"dict0">> ELSE <<"dict", KeyLit(dom), Lit(dom)>>
    [] dom = "dict1" -> <<"dict", <<"lit", Pick({"int", "str"})>>, Lit(dom)>>
    [] dom = "set" -> <<"set", <<Lit(dom)>>>>
    [] dom = "inst" -> IF Names("cls") # {}
                       THEN One({<<"call", c, RandArgs(Arity(c), 0, {})>> : c \in {Pick(Names("cls"))}})
                       ELSE <<"list", <<>>>>
    [] OTHER -> Lit(dom)

(* module level: mutate the object a variable holds (directly, through an attribute or an element) *)
Shaped == {x \in Names("var") : ShapeOfVar(x) # "unk"}
MutOn(x) ==
  \E q \in {Pick(1 .. 6)} :
   \E k \in {IF q = 1 THEN PickSeq(MutKindsAll) ELSE PickSeq(MutKindsFor(ShapeOfVar(x)))} :
     Emit(MutOfKind(k, PlaceOn(x, ShapeOfVar(x)), Depth - 1, {})) /\ UNCHANGED scope
Insts == {x \in Names("var") : ShapeOfVar(x) = "inst"}
Mut ==
  \E q \in {Pick(1 .. 6)} :
    IF Insts # {} /\ q = 2 THEN \E x \in {Pick(Insts)} : MutOn(x)
    ELSE IF Names("cls") # {} /\ q = 2
    THEN \E x \in {Pick(VarNames)} : Emit(<<"assign", x, FreshOf("inst")>>) /\ Bind(x, "var", 0)
    ELSE IF Shaped # {} /\ q # 1 THEN \E x \in {Pick(Shaped)} : MutOn(x)
    ELSE IF Names("var") # {} /\ q = 1 THEN \E x \in {Pick(Names("var"))} : MutOn(x)
    ELSE \E x \in {Pick(VarNames)} :
           Emit(<<"assign", x, FreshOf(Pick({"list", "list1", "nest", "dict", "set", "inst"}))>>)
           /\ Bind(x, "var", 0)

(* a function that mutates its first parameter (and possibly another parameter or a global)        *)
RetExpr(ps) ==
  One({IF q <= 2 THEN <<"name", Pick(ps)>> ELSE IF q = 3 THEN Atom(ps) ELSE RandExpr(1, ps) : q \in {Pick(1 .. 4)}})
MBody(ps) ==
  One({IF q <= 3 THEN <<m1>>
       ELSE <<m1, MutOfKind(PickSeq(MutKindsAll), PlaceOn(Pick(ps \cup Names("var")), "unk"), 1, ps)>>
       : m1 \in {MutOfKind(PickSeq(MutKindsAll), PlaceOn("p1", "unk"), 1, ps)}, q \in {Pick(1 .. 4)}})
(* the functions of the second family draw from more names, so that more of them are defined once *)
FnNamesX == FnNames \cup {"f4", "f5", "f6"}
MDef ==
  \E f \in {Pick(FnNamesX)}, n \in {Pick(1 .. 2)}, st \in {Pick(1 .. 4)} :
    /\ Emit(<<"mdef", f, n, st = 1, MBody(ParamsX(n, st = 1)), ValExpr(1, ParamsX(n, st = 1)),
              RetExpr(ParamsX(n, st = 1)), RetExpr(ParamsX(n, st = 1))>>)
    /\ Bind(f, "mfn", n)

(* what the first mutation of the last mdef of f needs its first argument to be *)
MutDom0(m) ==
  CASE m[1] = "setitem" -> IF m[3][2] = "zero" THEN "list1" ELSE "dict"
    [] m[1] = "delitem" -> IF m[3][2] = "zero" THEN "list1" ELSE "dict1"
    [] m[1] = "setattr" -> "inst"
    [] m[1] = "augadd" -> "list"
    [] m[1] = "mcall" ->
         CASE m[3] \in {"append", "extend", "insert"} -> "list"
           [] m[3] \in {"remove", "clear"} -> "list1"
           [] m[3] = "pop" -> IF m[4] = <<>> THEN "list1" ELSE "dict1"
           [] m[3] = "add" -> "set"
           [] OTHER -> "dict"
    [] OTHER -> "list"
MutDom(m) == IF m[2][1] = "attr" THEN "inst" ELSE IF m[2][1] = "sub" THEN "nest" ELSE MutDom0(m)
LastDef(f) == stmts[Max({k \in DOMAIN stmts : stmts[k][1] \in {"mdef", "matchdef"} /\ stmts[k][2] = f})]
DefIdx(f) == {k \in DOMAIN stmts : stmts[k][1] \in {"def", "mdef", "matchdef", "assign"} /\ stmts[k][2] = f}
IsStar(f) == DefIdx(f) # {} /\ LET s == stmts[Max(DefIdx(f))] IN s[1] \in {"mdef", "matchdef"} /\ s[4]
FreshFor(m) ==
  IF MutDom(m) = "dict1" THEN <<"dict", IF m[1] = "delitem" THEN m[3] ELSE m[4][1], Lit(m)>>
  ELSE FreshOf(MutDom(m))
NeedsClass(f) == MutDom(LastDef(f)[5][1]) = "inst" /\ Names("cls") = {} /\ FreshCls # {}

(* the same function called twice on two FRESH objects given by the same term *)
TwinCall ==
  \E f \in {Pick({g \in Names("mfn") : ~NeedsClass(g)})}, v \in {Pick(1 .. 3)}, x \in {Pick(VarNames)},
     o \in {Atom({})} :
  \E a \in {FreshFor(LastDef(f)[5][1])}, y \in {Pick(VarNames \ {x})} :
  \E r1 \in {Pick(VarNames \ {x, y})}, r2 \in {Pick(VarNames \ {x, y})} :
    LET args(z) == IF Arity(f) = 1 THEN <<z>> ELSE <<z, o>>
        ax == <<"assign", x, a>>
        ay == <<"assign", y, a>>
        cx == <<"assign", r1, <<"call", f, args(<<"name", x>>)>>>>
        cy == <<"assign", r2, <<"call", f, args(<<"name", y>>)>>>>
        ix == <<"assign", x, <<"call", f, args(a)>>>>
        iy == <<"assign", y, <<"call", f, args(a)>>>>
    IN /\ stmts' = stmts \o (IF v = 1 THEN <<ax, cx, ay, cy>>
                             ELSE IF v = 2 THEN <<ax, ay, cx, cy>> ELSE <<ix, iy>>)
       /\ BindMany(IF v = 3 THEN {x, y} ELSE {x, y, r1, r2})

(* a function called twice with arguments of different shape and length *)
ProbeArg(u) ==
  PickSeq(<< <<"list", <<>>>>, <<"list", <<Lit(u)>>>>, <<"list", <<Lit(u), Lit(u)>>>>, <<"tuple", <<>>>>,
             <<"tuple", <<Lit(u)>>>>, <<"tuple", <<Lit(u), Lit(u)>>>>, <<"split", "empty">>,
             <<"split", "two">>, <<"dict0">>, <<"dict", KeyLit(u), Lit(u)>>, Lit(u), Lit(u), Atom({}),
             Atom({}), <<"bcall", "list", <<"tuple", <<>>>>>>, <<"bcall", "tuple", <<"split", "empty">>>> >>)
ProbeArgs(f) ==
  (IF Arity(f) = 0 THEN <<>> ELSE IF Arity(f) = 1 THEN <<ProbeArg(f)>> ELSE <<ProbeArg(f), ProbeArg(f)>>)
  \o (IF IsStar(f)
      THEN One({IF q = 1 THEN <<>> ELSE IF q = 2 THEN <<Lit(f)>> ELSE <<Lit(f), ProbeArg(f)>> : q \in {Pick(1 .. 3)}})
      ELSE <<>>)
NewFns == {f \in Fns : DefIdx(f) # {} /\ stmts[Max(DefIdx(f))][1] \in {"mdef", "matchdef"}}
Probe ==
  \E f \in {IF NewFns # {} /\ Pick(1 .. 5) # 1 THEN Pick(NewFns) ELSE Pick(Fns)}, r1 \in {Pick(VarNames)}, r2 \in {Pick(VarNames)} :
    /\ stmts' = stmts \o << <<"assign", r1, <<"call", f, ProbeArgs(f)>>>>,
                            <<"assign", r2, <<"call", f, ProbeArgs(f)>>>> >>
    /\ BindMany({r1, r2})

(* a call for its effect only *)
CallSt ==
  \E f \in {Pick(Fns)} :
    Emit(<<"expr", <<"call", f, IF Arity(f) = 0 THEN <<>> ELSE IF Arity(f) = 1 THEN <<Atom({})>>
                                ELSE <<Atom({}), Atom({})>>>>>>) /\ UNCHANGED scope

(* ---- patterns ---- *)
PatLits == {"int", "str", "float", "bool", "none", "zero", "empty"}
PatClasses == {"int", "str", "float", "bool", "list", "tuple", "dict", "set"}
PatKindsR == <<"pval", "pval", "pseq", "pseq", "pseq", "pstar", "pstar", "pmap", "pmap", "pcls", "pcls",
               "por", "pas">>
PatKindsA == PatKindsR \o <<"pcap", "pcap", "pwild">>
(* kinds of the top-level pattern for a subject of (syntactically) known shape *)
PatKindsB(sh) ==
  CASE sh = "list" -> <<"pseq", "pseq", "pseq", "pseq", "pstar", "pstar", "pstar", "pclsL", "pval", "pcap",
                        "pmap", "por", "pas">>
    [] sh = "dict" -> <<"pmap", "pmap", "pmap", "pmap", "pclsD", "pseq", "pval", "pcap", "por", "pas">>
    [] sh \in LitKinds -> <<"pvalS", "pvalS", "pvalS", "pval", "pval", "pcls", "pcls", "por", "por", "pas", "pcap",
                            "pseq">>                  \* the subject is a literal of kind sh
    [] OTHER -> PatKindsA
AltPat(u) ==
  PickSeq(<< <<"pval", Pick(PatLits)>>, <<"pval", Pick(PatLits)>>, <<"pcls", Pick(PatClasses), <<>>, <<>>>>,
             <<"pseq", "l", <<>>>>, <<"pmap", <<>>, "">> >>)
RECURSIVE RandPat(_, _, _)
(* a sub-pattern: two times out of three a leaf (value, capture, wildcard) *)
SubPat(d, tag) == IF Pick(1 .. 3) = 1 THEN RandPat(d, tag, "A") ELSE RandPat(0, tag, "A")
SubPats(n, d, tag) ==
  IF n = 0 THEN <<>> ELSE IF n = 1 THEN <<SubPat(d, tag \o "1")>>
  ELSE <<SubPat(d, tag \o "1"), SubPat(d, tag \o "2")>>
MapItems(n, d, tag) ==
  IF n = 0 THEN <<>> ELSE IF n = 1 THEN << <<KeyLit(d), SubPat(d, tag \o "v")>> >>
  ELSE << <<<<"lit", "str">>, SubPat(d, tag \o "v")>>, <<<<"lit", "int">>, SubPat(d, tag \o "w")>> >>
ClsPat(d, tag) ==
  IF Names("cls") # {} /\ Pick(1 .. 2) = 1
  THEN One({<<"pcls", Pick(Names("cls")), <<>>,
              IF q = 1 THEN <<>> ELSE << <<Pick({"a", "b"}), SubPat(d - 1, tag \o "a")>> >>>>
            : q \in {Pick(1 .. 2)}})
  ELSE One({<<"pcls", Pick(PatClasses), IF q = 1 THEN <<>> ELSE <<SubPat(d - 1, tag \o "p")>>, <<>>>>
            : q \in {Pick(1 .. 3)}})
(* refut = "R": the pattern must be refutable; "A": any kind; "list" / "dict": any kind, biased to *)
(* the kinds that can match a subject of that shape                                            *)
RandPat(d, tag, refut) ==
  IF d = 0
  THEN (IF refut = "R" THEN <<"pval", Pick(PatLits)>>
        ELSE PickSeq(<< <<"pval", Pick(PatLits)>>, <<"pcap", tag>>, <<"pcap", tag>>, <<"pwild">> >>))
  ELSE One({
    CASE k = "pval" -> <<"pval", Pick(PatLits)>>
      [] k = "pwild" -> <<"pwild">>
      [] k = "pcap" -> <<"pcap", tag>>
      [] k = "pseq" -> One({<<"pseq", Pick({"l", "t"}), SubPats(n, d - 1, tag)>> : n \in {Pick(0 .. 2)}})
      [] k = "pstar" -> One({<<"pstar", SubPats(n, d - 1, tag), Pick({"_", tag \o "r"}),
                               SubPats(m, d - 1, tag \o "z")>> : n \in {Pick(0 .. 1)}, m \in {Pick(0 .. 1)}})
      [] k = "pmap" -> One({<<"pmap", MapItems(n, d - 1, tag), Pick({"", tag \o "k"})>> : n \in {Pick(0 .. 2)}})
      [] k = "pcls" -> ClsPat(d, tag)
      [] k = "pclsL" -> <<"pcls", Pick({"list", "tuple"}), IF Pick(1 .. 2) = 1 THEN <<>> ELSE <<<<"pcap", tag>>>>, <<>>>>
      [] k = "pvalS" -> <<"pval", refut>>
      [] k = "pclsD" -> <<"pcls", "dict", IF Pick(1 .. 2) = 1 THEN <<>> ELSE <<<<"pcap", tag>>>>, <<>>>>
      [] k = "por" -> <<"por", AltPat(d), AltPat(tag)>>
      [] k = "pas" -> <<"pas", RandPat(d - 1, tag \o "i", "R"), tag>>
    : k \in {PickSeq(IF refut = "R" THEN PatKindsR ELSE IF refut = "A" THEN PatKindsA ELSE PatKindsB(refut))}})

RECURSIVE Caps(_)
CapsSeq(q) == UNION {Caps(q[k]) : k \in DOMAIN q}
Caps(p) ==
  CASE p[1] = "pcap" -> {p[2]}
    [] p[1] = "pseq" -> CapsSeq(p[3])
    [] p[1] = "pstar" -> CapsSeq(p[2]) \cup (IF p[3] = "_" THEN {} ELSE {p[3]}) \cup CapsSeq(p[4])
    [] p[1] = "pmap" -> UNION {Caps(p[2][k][2]) : k \in DOMAIN p[2]} \cup (IF p[3] = "" THEN {} ELSE {p[3]})
    [] p[1] = "pcls" -> CapsSeq(p[3]) \cup UNION {Caps(p[4][k][2]) : k \in DOMAIN p[4]}
    [] p[1] = "pas" -> Caps(p[2]) \cup {p[3]}
    [] OTHER -> {}
RECURSIVE PatCls(_)
PatClsSeq(q) == UNION {PatCls(q[k]) : k \in DOMAIN q}
PatCls(p) ==                                   \* user classes a pattern names
  CASE p[1] = "pseq" -> PatClsSeq(p[3])
    [] p[1] = "pstar" -> PatClsSeq(p[2]) \cup PatClsSeq(p[4])
    [] p[1] = "pmap" -> UNION {PatCls(p[2][k][2]) : k \in DOMAIN p[2]}
    [] p[1] = "pcls" -> (IF p[2] \in PatClasses THEN {} ELSE {p[2]}) \cup PatClsSeq(p[3])
                        \cup UNION {PatCls(p[4][k][2]) : k \in DOMAIN p[4]}
    [] p[1] = "por" -> PatCls(p[2]) \cup PatCls(p[3])
    [] p[1] = "pas" -> PatCls(p[2])
    [] OTHER -> {}
Irref(p) == p[1] \in {"pwild", "pcap"}

(* one case <<pattern, guard, expression>>; a case that is not the last one is refutable or guarded *)
GuardFor(p, final, params) ==
  IF (~final /\ Irref(p)) \/ Pick(1 .. 5) = 1 THEN ValExpr(1, params \cup Caps(p)) ELSE <<"noguard">>
(* sh: "list" / "dict" (shape of the subject) or "A" *)
CaseOf(final, fw, params, d, sh) ==
  IF final /\ fw THEN << <<"pwild">>, <<"noguard">>, ValExpr(d, params)>>
  ELSE One({One({<<p, g, ValExpr(d, params \cup Caps(p))>> : g \in {GuardFor(p, final, params)}})
            : p \in {RandPat(2, "c", sh)}})
Cases(nc, fw, params, d, sh) ==
  IF nc = 1 THEN <<CaseOf(TRUE, fw, params, d, sh)>>
  ELSE IF nc = 2 THEN <<CaseOf(FALSE, fw, params, d, sh), CaseOf(TRUE, fw, params, d, sh)>>
  ELSE IF nc = 3 THEN <<CaseOf(FALSE, fw, params, d, sh), CaseOf(FALSE, fw, params, d, sh),
                        CaseOf(TRUE, fw, params, d, sh)>>
  ELSE <<CaseOf(FALSE, fw, params, d, sh), CaseOf(FALSE, fw, params, d, sh), CaseOf(FALSE, fw, params, d, sh),
         CaseOf(TRUE, fw, params, d, sh)>>

(* subjects: of statically unknown length (and often empty at run time), a name, any expression *)
UnkLen(u) ==
  PickSeq(<< <<"split", "empty">>, <<"split", "empty">>, <<"split", "one">>, <<"split", "two">>,
             <<"bcall", "list", <<"tuple", <<>>>>>>, <<"bcall", "tuple", <<"list", <<>>>>>>,
             <<"bcall", "tuple", <<"split", "empty">>>>, <<"bcall", "sorted", <<"list", <<Lit(u)>>>>>>,
             <<"lcomp", <<"name", "v">>, <<"list", <<>>>>>>,
             <<"lcomp", <<"name", "v">>, <<"list", <<Lit(u), Lit(u)>>>>>>,
             <<"bcall", "list", <<"list", <<Lit(u), Lit(u)>>>>>>, <<"slice", <<"split", "two">>, "tail">> >>)
Subject(params) ==
  One({IF q <= 3 THEN UnkLen(params)
       ELSE IF q <= 5 /\ (Names("var") \cup params) # {} THEN <<"name", Pick(Names("var") \cup params)>>
       ELSE IF q = 6 THEN ContainerExpr(1, params)
       ELSE IF q = 7 THEN Lit(params)
       ELSE IF q = 8 THEN FreshOf("dict")
       ELSE RandExpr(Depth, params) : q \in {Pick(1 .. 9)}})
SubjShape(e, params) ==
  IF e[1] = "name" THEN (IF e[2] = "ps" THEN "list" ELSE IF e[2] \in params THEN Pick({"list", "list", "dict", "A"})
                         ELSE IF ShapeOfVar(e[2]) \in {"list", "dict"} THEN ShapeOfVar(e[2]) ELSE "A")
  ELSE IF e[1] = "lit" THEN e[2]
  ELSE IF e[1] = "tuple" \/ e[1] = "slice" \/ (e[1] = "bcall" /\ e[2] = "tuple") THEN "list"
  ELSE IF ExprShape(e) \in {"list", "dict"} THEN ExprShape(e) ELSE "A"

MatchSt ==
  \E x \in {Pick(VarNames)}, nc \in {Pick(1 .. 3)}, subj \in {Subject({})} :
   \E sh \in {SubjShape(subj, {})} :
    /\ Emit(<<"match", x, subj,
              IF x \in Names("var") THEN Cases(nc, FALSE, {}, Depth, sh) ELSE Cases(nc + 1, TRUE, {}, Depth, sh)>>)
    /\ Bind(x, "var", 0)

MatchDef ==
  \E f \in {Pick(FnNamesX)}, n \in {Pick(0 .. 2)}, st \in {Pick(1 .. 3)}, nc \in {Pick(1 .. 3)} :
   \E ps \in {ParamsX(n, st = 1 \/ n = 0)} :
   \E subj \in {IF Pick(1 .. 4) # 1 THEN <<"name", Pick(ps)>> ELSE Subject(ps)} :
   \E sh \in {SubjShape(subj, ps)} :
    /\ Emit(<<"matchdef", f, n, st = 1 \/ n = 0, subj, Cases(nc, FALSE, ps, Depth, sh), ValExpr(Depth, ps)>>)
    /\ Bind(f, "fn", n)

Finish == done' = TRUE /\ UNCHANGED <<stmts, scope>>

Init == stmts = <<>> /\ scope = {} /\ done = FALSE

StmtKinds == <<"assign", "assign", "assign", "if", "ifonly", "try", "def", "def", "lambda",
               "class", "class">>
  \o (IF Mutation THEN <<"mut", "mut", "mut", "mdef", "mdef", "twin", "twin", "probe", "callst">> ELSE <<>>)
  \o (IF Match THEN <<"match", "match", "match", "matchdef", "matchdef", "probe">> ELSE <<>>)

Next ==
  /\ ~done
  /\ IF Len(stmts) >= MaxStmts THEN Finish
     ELSE /\ done' = FALSE
          /\ \E k \in {PickSeq(StmtKinds)} :
             CASE k = "assign" -> Assign
               [] k = "if" -> IfBoth
               [] k = "ifonly" -> IF Names("var") # {} THEN IfOnly ELSE Assign
               [] k = "try" -> Try
               [] k = "def" -> Def
               [] k = "lambda" -> Lambda
               [] k = "class" -> IF FreshCls # {} THEN Class ELSE Assign
               [] k = "mut" -> Mut
               [] k = "mdef" -> MDef
               [] k = "twin" -> IF Names("mfn") = {} THEN MDef
                               ELSE IF \A f \in Names("mfn") : NeedsClass(f) THEN Class ELSE TwinCall
               [] k = "probe" -> IF Fns # {} THEN Probe ELSE IF Match THEN MatchDef ELSE MDef
               [] k = "callst" -> IF Fns # {} THEN CallSt ELSE MDef
               [] k = "match" -> MatchSt
               [] k = "matchdef" -> MatchDef

Spec == Init /\ [][Next]_vars

(* well-scopedness of what was emitted: every free name of every statement is bound earlier.   *)
RECURSIVE FreeNames(_)
FreeNames(e) ==
  CASE e[1] = "lit" -> {}
    [] e[1] = "name" -> {e[2]}
    [] e[1] \in {"list", "tuple", "set"} -> UNION {FreeNames(e[2][k]) : k \in DOMAIN e[2]}
    [] e[1] = "dict" -> FreeNames(e[3])
    [] e[1] \in {"add", "or", "and", "cmp"} -> FreeNames(e[2]) \cup FreeNames(e[3])
    [] e[1] = "cond" -> FreeNames(e[2]) \cup FreeNames(e[3]) \cup FreeNames(e[4])
    [] e[1] \in {"not", "isnone", "sub"} -> FreeNames(e[2])
    [] e[1] = "isinst" -> FreeNames(e[2]) \cup {e[3]}
    [] e[1] = "bcall" -> FreeNames(e[3])
    [] e[1] \in {"attr", "meth"} -> FreeNames(e[2])
    [] e[1] = "call" -> {e[2]} \cup UNION {FreeNames(e[3][k]) : k \in DOMAIN e[3]}
    [] e[1] = "lambda" -> FreeNames(e[2]) \ {"p1"}
    [] e[1] = "lcomp" -> (FreeNames(e[2]) \ {"v"}) \cup FreeNames(e[3])
    [] e[1] \in {"split", "dict0", "noguard"} -> {}
    [] e[1] = "mx" -> FreeNames(e[2]) \cup UNION {FreeNames(e[4][k]) : k \in DOMAIN e[4]}
    [] e[1] = "slice" -> FreeNames(e[2])

BoundBefore(k) ==
  {stmts[j][2] : j \in {j \in 1 .. k - 1 : stmts[j][1] \in {"assign", "def", "class", "try", "mdef",
                                                           "matchdef", "match"}}}
  \cup {stmts[j][3] : j \in {j \in 1 .. k - 1 : stmts[j][1] = "if"}}

(* free names of the cases of a match: captures are bound inside the case, class names are read *)
CasesFree(cs) ==
  UNION {((FreeNames(cs[k][2]) \cup FreeNames(cs[k][3])) \ Caps(cs[k][1])) \cup PatCls(cs[k][1])
         : k \in DOMAIN cs}
MutFree(s) ==          \* the simple statements of the second family
  CASE s[1] = "setitem" -> FreeNames(s[2]) \cup FreeNames(s[4])
    [] s[1] = "delitem" -> FreeNames(s[2])
    [] s[1] = "setattr" -> FreeNames(s[2]) \cup FreeNames(s[4])
    [] s[1] = "mcall" -> FreeNames(s[2]) \cup UNION {FreeNames(s[4][k]) : k \in DOMAIN s[4]}
    [] s[1] = "augadd" -> FreeNames(s[2]) \cup FreeNames(s[3])
    [] s[1] = "expr" -> FreeNames(s[2])
StmtFree(s) ==
  CASE s[1] \in {"setitem", "delitem", "setattr", "mcall", "augadd", "expr"} -> MutFree(s)
    [] s[1] = "mdef" ->
         (UNION {MutFree(s[5][k]) : k \in DOMAIN s[5]} \cup FreeNames(s[6]) \cup FreeNames(s[7])
          \cup FreeNames(s[8])) \ {"p1", "p2", "ps"}
    [] s[1] = "match" -> FreeNames(s[3]) \cup CasesFree(s[4])
    [] s[1] = "matchdef" -> (FreeNames(s[5]) \cup CasesFree(s[6]) \cup FreeNames(s[7])) \ {"p1", "p2", "ps"}
    [] s[1] = "assign" -> FreeNames(s[3])
    [] s[1] = "if" -> FreeNames(s[2]) \cup FreeNames(s[4]) \cup FreeNames(s[5])
    [] s[1] = "ifonly" -> FreeNames(s[2]) \cup FreeNames(s[4]) \cup {s[3]}
    [] s[1] = "try" -> FreeNames(s[3]) \cup FreeNames(s[4])
    [] s[1] = "def" -> (FreeNames(s[4]) \cup FreeNames(s[5]) \cup FreeNames(s[6])) \ {"p1", "p2"}
    [] s[1] = "class" ->
         SeqToSetOf(s[3])
         \cup UNION {FreeNames(s[4][k][2]) : k \in DOMAIN s[4]}
         \cup (UNION {FreeNames(s[6][k][2]) : k \in DOMAIN s[6]} \ {"p1", "self"})
         \cup (UNION {FreeNames(s[7][k][2]) : k \in DOMAIN s[7]} \ {"self"})

WellScoped == \A k \in DOMAIN stmts : StmtFree(stmts[k]) \subseteq BoundBefore(k)

ExportInv == done => PrintT(<<"CASE", ToJson([p |-> stmts])>>)
=============================================================================

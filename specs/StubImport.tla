----------------------------- MODULE StubImport -----------------------------
(* C06: a module seen through its emitted stub keeps the types that were inferred for it.       *)
(* Lifecycle: Analyze(A) -> Emit(stub of A as text / as pickled AST) -> Analyze(B) where B       *)
(* reads names of A -> Compare.  exported[n] is the type A's analysis inferred for A's name n,   *)
(* seen[cfg][n] the type the reader slot of B got under configuration cfg in                     *)
(*   {"pythonpath" (stub text found on the python path), "imports_map" (stub text through an      *)
(*    imports-map entry), "pickled" (pickled AST through an imports-map entry)}.                  *)
(* Invariant: TypeEq(seen[cfg][n], exported[n]) for every cfg, the configurations agree among    *)
(* themselves, and B's analysis reports neither an import error nor a pyi error.                  *)
(* Second part (section WORLDS, generator StubWorld.tla): A is a small import DAG of analysed     *)
(* modules (aliases that collide across modules; generic classes with positional templates) and   *)
(* exported[...] of a read path is computed from all their recorded declarations (PathType).      *)
EXTENDS PytdTypes

(* members of a (possibly nested) union; a non-union is a union of one *)
RECURSIVE Members(_)
Members(t) == IF t[1] = "union" THEN UNION {Members(t[3][k]) : k \in DOMAIN t[3]} ELSE {t}

(* structural equality modulo union order / duplication / nesting (Optional[X] is X | None) *)
RECURSIVE TypeEq(_, _)
TypeEq(t, u) ==
  IF t[1] = "union" \/ u[1] = "union"
    THEN /\ \A a \in Members(t) : \E b \in Members(u) : TypeEq(a, b)
         /\ \A b \in Members(u) : \E a \in Members(t) : TypeEq(a, b)
    ELSE /\ t[1] = u[1] /\ t[2] = u[2] /\ Len(t[3]) = Len(u[3])
         /\ \A k \in DOMAIN t[3] : TypeEq(t[3][k], u[3][k])

Configs == {"pythonpath", "imports_map", "pickled"}
BadErrors == {"import-error", "pyi-error"}

(* one reader slot: [n, k |-> "name"|"attr"|"meth", ta |-> exported type, tb |-> [cfg |-> seen]]   *)
SlotFails(s) ==
  {c \in DOMAIN s.tb : ~TypeEq(s.tb[c], s.ta)}

(* DOCUMENTED DEVIATION "none-attr-any": an attribute read whose exported type admits None is     *)
(* seen as Any (the VM replaces possibly-None attribute bindings by Any unless                     *)
(* --strict-none-binding is on; vm.py _filter_none_and_paste_bindings).                            *)
NoneAttrAny(s, cfg) ==
  /\ s.k = "attr" /\ s.tb[cfg][1] = "any"
  /\ <<"cls", "NoneType", <<>>>> \in Members(s.ta)

TypeFails(c) ==
  UNION {{<<IF NoneAttrAny(c.slots[k], cfg) THEN "type:none-attr-any" ELSE "type", k, cfg>>
            : cfg \in SlotFails(c.slots[k])} : k \in DOMAIN c.slots}
ErrFails(c) ==
  UNION {{<<"error", e, x>> : e \in (BadErrors \cap SeqToSet(c.errs[x]))} : x \in DOMAIN c.errs}

(* C06's last sentence: the three configurations give the same types among themselves.  (With   *)
(* TypeFails this is implied for slots that are right everywhere; it is a clause of its own so    *)
(* that a documented deviation which holds under one configuration only is still reported.)       *)
CfgPairs == {<<"pythonpath", "imports_map">>, <<"pythonpath", "pickled">>, <<"imports_map", "pickled">>}
PairName(pr) == pr[1] \o "/" \o pr[2]
AgreeFails(c) ==
  UNION {{<<"agree", k, PairName(pr)>> :
            pr \in {q \in CfgPairs : ~TypeEq(c.slots[k].tb[q[1]], c.slots[k].tb[q[2]])}}
         : k \in DOMAIN c.slots}
CaseFails(c) == TypeFails(c) \cup ErrFails(c) \cup AgreeFails(c)

(* ============================================================================================ *)
(* WORLDS: the reader sees a small import DAG of analysed modules, each through its stub.        *)
(*                                                                                              *)
(* Type terms in worlds keep module qualification: <<"cls", "c1.Cfg", <<>>>>,                     *)
(* <<"gen", "m1.P", <<int, str>>>> (an instance of a user generic class),                         *)
(* <<"tparam", "V", <<>>>> (a type parameter inside a class declaration), and a NESTED class is     *)
(* named by its dotted path: <<"cls", "m1.Outer.Inner", <<>>>>.                                   *)
(*                                                                                              *)
(* A declaration table D == [names, frets, classes]:                                             *)
(*   names, frets  the LAST upstream module's variables / function results,                      *)
(*   classes       every class of every module of the world, keyed by its qualified name:        *)
(*                 [tpl |-> <<type-parameter names, in declaration order>>,                       *)
(*                  bases |-> <<user-class bases as type terms>>, attrs, rets |-> name -> type]    *)
(* The same operators read the MODEL's table (ModelD(w): what the world's modules declare by     *)
(* construction) and the RECORDED table (what the real analyses of the upstream modules          *)
(* inferred, taken from their ASTs).  A read is [s |-> start, p |-> <<steps>>]:                   *)
(*   start [k |-> "var", n]   L.n            [k |-> "call", n]  L.n()                             *)
(*         [k |-> "param", t] a reader function's parameter annotated with type t                *)
(*   step  [k |-> "attr", n]  .n             [k |-> "meth", n]  .n()                              *)
(* PathType(D, r) is the type the upstream analyses give to the read: declarations are looked up *)
(* in the class of the receiver, then in its bases, and the type parameters of a generic class    *)
(* are bound to the receiver's arguments BY POSITION in the class's template.                    *)
(* ============================================================================================ *)
TCls(n) == <<"cls", n, <<>>>>
TGen(n, args) == <<"gen", n, args>>
TPar(n) == <<"tparam", n, <<>>>>
TAny == <<"any", "", <<>>>>
TUnknown == <<"unknown", "", <<>>>>

RECURSIVE SubstT(_, _, _)
SubstT(t, tpl, args) ==
  IF t[1] = "tparam"
    THEN IF \E x \in DOMAIN tpl : tpl[x] = t[2]
           THEN LET x == CHOOSE y \in DOMAIN tpl : tpl[y] = t[2]
                IN IF x \in DOMAIN args THEN args[x] ELSE TAny
           ELSE t
    ELSE <<t[1], t[2], [k \in DOMAIN t[3] |-> SubstT(t[3][k], tpl, args)]>>

(* member `n` (kind "attrs" | "rets") of class q instantiated with args; own declarations first,  *)
(* then the first base that has it (single inheritance is all the worlds use)                     *)
RECURSIVE Member(_, _, _, _, _, _)
Member(CT, q, args, kind, n, fuel) ==
  IF q \notin DOMAIN CT \/ fuel = 0 THEN TUnknown
  ELSE LET c == CT[q] IN
       IF n \in DOMAIN c[kind] THEN SubstT(c[kind][n], c.tpl, args)
       ELSE IF Len(c.bases) = 0 THEN TUnknown
       ELSE LET b == SubstT(c.bases[1], c.tpl, args) IN Member(CT, b[2], b[3], kind, n, fuel - 1)

StepType(CT, t, st) ==
  IF t[1] \in {"cls", "gen"}
    THEN Member(CT, t[2], t[3], IF st.k = "attr" THEN "attrs" ELSE "rets", st.n, 4)
    ELSE TUnknown
RECURSIVE Walk(_, _, _)
Walk(CT, t, p) == IF p = <<>> THEN t ELSE Walk(CT, StepType(CT, t, Head(p)), Tail(p))
StartType(D, s) ==
  CASE s.k = "var" -> IF s.n \in DOMAIN D.names THEN D.names[s.n] ELSE TUnknown
    [] s.k = "call" -> IF s.n \in DOMAIN D.frets THEN D.frets[s.n] ELSE TUnknown
    [] s.k = "param" -> s.t
PathType(D, r) == Walk(D.classes, StartType(D, r.s), r.p)

(* ---------------------------------------------------------------- the model of a world's modules *)
Fixtures == {"c1", "c2"}
UpName(k) == "m" \o ToString(k)
Num(pre, x) == pre \o ToString(x)
Entry(tpl, bases, attrs, rets, an, rn) ==
  [tpl |-> tpl, bases |-> bases, attrs |-> attrs, rets |-> rets, an |-> an, rn |-> rn]
NoFn == [x \in {} |-> TAny]
(* fixture modules: two classes each; `Cfg` exists in both with a different `level`               *)
FixCT ==
  ("c1.Cfg" :> Entry(<<>>, <<>>, "level" :> TCls("int"), NoFn, <<"level">>, <<>>)) @@
  ("c1.One" :> Entry(<<>>, <<>>, "level" :> TCls("bytes"), NoFn, <<"level">>, <<>>)) @@
  ("c2.Cfg" :> Entry(<<>>, <<>>, "level" :> TCls("str"), NoFn, <<"level">>, <<>>)) @@
  ("c2.Two" :> Entry(<<>>, <<>>, "level" :> TCls("float"), NoFn, <<"level">>, <<>>))
OwnName(m) == IF m = "c1" THEN "One" ELSE "Two"

(* family "dag": w.mods[k] = <<imports of upstream module m_k>>, an import is                      *)
(*   [t |-> imported module, a |-> alias name ("" = plain `import t`),                             *)
(*    u |-> how m_k exposes the imported module's class: "var" x_i = ref.C(), "fn" def f_i():      *)
(*          return ref.C(), "meth" method g_i of m_k's own class T,                                *)
(*    c |-> "Cfg" | "Own" (which class of a fixture module; upstream modules expose T)]            *)
ImpClass(imp) ==
  IF imp.t \in Fixtures THEN (IF imp.c = "Cfg" THEN "Cfg" ELSE OwnName(imp.t)) ELSE "T"
ImpType(imp) == TCls(imp.t \o "." \o ImpClass(imp))
TagT == <<"float", "bytes", "bool">>
Idx(imps, u) == SelectSeq([x \in DOMAIN imps |-> x], LAMBDA x : imps[x].u = u)
UpEntry(imps, k) ==
  LET ms == Idx(imps, "meth") IN
  Entry(<<>>, <<>>, "tag" :> TCls(TagT[k]),
        [n \in {Num("g", ms[x]) : x \in DOMAIN ms} |->
           ImpType(imps[CHOOSE y \in DOMAIN imps : Num("g", y) = n])],
        <<"tag">>, [x \in DOMAIN ms |-> Num("g", ms[x])])
DagCT(w) ==
  FixCT @@ [q \in {UpName(k) \o ".T" : k \in DOMAIN w.mods} |->
              LET k == CHOOSE y \in DOMAIN w.mods : UpName(y) \o ".T" = q IN UpEntry(w.mods[k], k)]

(* family "gen": m1 declares `class P(Generic[params])` with, per position x, an attribute at_x    *)
(* typed by the parameter ("plain") or by List[parameter] ("list"), a method get_x returning the   *)
(* parameter and a plain attribute n: int.  The LAST module (m1 itself: loc "same", or m2 which    *)
(* imports m1 plainly / under alias u) declares mk() -> P[Inst1] (annotated), mk2() and p          *)
(* (inferred P[Inst2]) and, if w.sub, `class Q(P[Inst1])` with mkq() -> Q.                         *)
Inst1 == <<TCls("int"), TCls("str"), TCls("float")>>
Inst2 == <<TCls("bytes"), TCls("bool"), TCls("complex")>>
GenLast(w) == IF w.loc = "same" THEN "m1" ELSE "m2"
Shape(sh, t) == IF sh = "list" THEN TGen("list", <<t>>) ELSE t
GenAN(w) == [x \in DOMAIN w.params |-> Num("at", x)] \o <<"n">>
GenRN(w) == [x \in DOMAIN w.params |-> Num("get", x)]
GenCT(w) ==
  LET np == Len(w.params)
      pe == Entry(w.params, <<>>,
                  [n \in {Num("at", x) : x \in 1 .. np} \cup {"n"} |->
                     IF n = "n" THEN TCls("int")
                     ELSE LET x == CHOOSE y \in 1 .. np : Num("at", y) = n
                          IN Shape(w.shapes[x], TPar(w.params[x]))],
                  [n \in {Num("get", x) : x \in 1 .. np} |->
                     TPar(w.params[CHOOSE y \in 1 .. np : Num("get", y) = n])],
                  GenAN(w), GenRN(w))
      qe == Entry(<<>>, <<TGen("m1.P", SubSeq(Inst1, 1, np))>>, NoFn, NoFn, GenAN(w), GenRN(w))
  IN IF w.sub THEN ("m1.P" :> pe) @@ ((GenLast(w) \o ".Q") :> qe) ELSE ("m1.P" :> pe)

(* family "nest" (NESTED classes): m1 declares `class Outer` (attribute n: int) with the nested  *)
(* `class Inner` (attribute z: float, method who() -> bytes) and `class Holder` (attribute inn and  *)
(* method mk() typed Outer.Inner).  The LAST module (m1 itself: loc "same", or m2 which imports m1  *)
(* plainly / under alias u) declares, per element of w.uses: "var" x = Outer.Inner(), "fn" f()      *)
(* (inferred result), "ann" fa() -> Outer.Inner (annotated), "hold" h = Holder(), "sub" class       *)
(* S(Outer.Inner) with s = S(), "kcls" class K (attribute inn, method mk typed Outer.Inner).        *)
(* Class names in the tables are DOTTED for nested classes: "m1.Outer.Inner".                      *)
NestLast(w) == IF w.loc = "same" THEN "m1" ELSE "m2"
TInner == TCls("m1.Outer.Inner")
NestedNames == {"m1.Outer.Inner"}
HasUse(w, u) == \E x \in DOMAIN w.uses : w.uses[x] = u
NoCls == [x \in {} |-> Entry(<<>>, <<>>, NoFn, NoFn, <<>>, <<>>)]
NestCT(w) ==
  LET L == NestLast(w) IN
  ("m1.Outer" :> Entry(<<>>, <<>>, "n" :> TCls("int"), NoFn, <<"n">>, <<>>)) @@
  ("m1.Outer.Inner" :> Entry(<<>>, <<>>, "z" :> TCls("float"), "who" :> TCls("bytes"),
                             <<"z">>, <<"who">>)) @@
  ("m1.Holder" :> Entry(<<>>, <<>>, "inn" :> TInner, "mk" :> TInner, <<"inn">>, <<"mk">>)) @@
  (IF HasUse(w, "kcls")
     THEN (L \o ".K") :> Entry(<<>>, <<>>, "inn" :> TInner, "mk" :> TInner, <<"inn">>, <<"mk">>)
     ELSE NoCls) @@
  (IF HasUse(w, "sub")
     THEN (L \o ".S") :> Entry(<<>>, <<TInner>>, NoFn, NoFn, <<"z">>, <<"who">>)
     ELSE NoCls)
NestNames(w) ==
  (IF HasUse(w, "var") THEN "x" :> TInner ELSE NoFn) @@
  (IF HasUse(w, "hold") THEN "h" :> TCls("m1.Holder") ELSE NoFn) @@
  (IF HasUse(w, "sub") THEN "s" :> TCls(NestLast(w) \o ".S") ELSE NoFn)
NestFrets(w) ==
  (IF HasUse(w, "fn") THEN "f" :> TInner ELSE NoFn) @@
  (IF HasUse(w, "ann") THEN "fa" :> TInner ELSE NoFn)

LastOf(w) == IF w.fam = "dag" THEN UpName(Len(w.mods))
             ELSE IF w.fam = "nest" THEN NestLast(w) ELSE GenLast(w)
ModelD(w) ==
  IF w.fam = "dag" THEN
    LET imps == w.mods[Len(w.mods)]
        vs == Idx(imps, "var")
        fs == Idx(imps, "fn")
    IN [names |-> [n \in {Num("x", vs[x]) : x \in DOMAIN vs} |->
                     ImpType(imps[CHOOSE y \in DOMAIN imps : Num("x", y) = n])],
        frets |-> [n \in {Num("f", fs[x]) : x \in DOMAIN fs} |->
                     ImpType(imps[CHOOSE y \in DOMAIN imps : Num("f", y) = n])],
        classes |-> DagCT(w)]
  ELSE IF w.fam = "nest" THEN
    [names |-> NestNames(w), frets |-> NestFrets(w), classes |-> NestCT(w)]
  ELSE
    LET np == Len(w.params)
        p1 == TGen("m1.P", SubSeq(Inst1, 1, np))
        p2 == TGen("m1.P", SubSeq(Inst2, 1, np))
    IN [names |-> "p" :> p2,
        frets |-> IF w.sub THEN ("mk" :> p1) @@ ("mk2" :> p2) @@ ("mkq" :> TCls(GenLast(w) \o ".Q"))
                  ELSE ("mk" :> p1) @@ ("mk2" :> p2),
        classes |-> GenCT(w)]

(* ---------------------------------------------------------------- Derive: the reader's reads   *)
St(k, n, t) == [k |-> k, n |-> n, t |-> t]
Starts(w) ==
  IF w.fam = "dag" THEN
    LET imps == w.mods[Len(w.mods)] IN
    [x \in DOMAIN imps |->
       IF imps[x].u = "var" THEN St("var", Num("x", x), TAny)
       ELSE IF imps[x].u = "fn" THEN St("call", Num("f", x), TAny)
       ELSE St("param", "o", TCls(LastOf(w) \o ".T"))]
  ELSE IF w.fam = "nest" THEN
    (* the last module's exports in the order of w.uses, then B's own annotations with m1's classes *)
    [x \in DOMAIN w.uses |->
       CASE w.uses[x] = "var" -> St("var", "x", TAny)
         [] w.uses[x] = "fn" -> St("call", "f", TAny)
         [] w.uses[x] = "ann" -> St("call", "fa", TAny)
         [] w.uses[x] = "hold" -> St("var", "h", TAny)
         [] w.uses[x] = "sub" -> St("var", "s", TAny)
         [] OTHER -> St("param", "o", TCls(NestLast(w) \o ".K"))]
    \o <<St("param", "o", TCls("m1.Holder")), St("param", "o", TInner)>>
  ELSE
    <<St("call", "mk", TAny), St("call", "mk2", TAny), St("var", "p", TAny)>>
    \o (IF w.loc = "same" THEN <<St("param", "o", TGen("m1.P", SubSeq(Inst1, 1, Len(w.params))))>>
        ELSE <<>>)
    \o (IF w.sub THEN <<St("call", "mkq", TAny), St("param", "o", TCls(GenLast(w) \o ".Q"))>>
        ELSE <<>>)
MaxSteps(w) == IF w.fam = "dag" THEN 3 ELSE IF w.fam = "nest" THEN 2 ELSE 1

RECURSIVE Flat(_)
Flat(ss) == IF ss = <<>> THEN <<>> ELSE Head(ss) \o Flat(Tail(ss))
(* every chain of 1..d steps through the members the model's classes declare (or inherit)        *)
RECURSIVE Chains(_, _, _)
Chains(CT, t, d) ==
  IF d = 0 \/ t[1] \notin {"cls", "gen"} THEN <<>>
  ELSE IF t[2] \notin DOMAIN CT THEN <<>>
  ELSE LET c == CT[t[2]]
           ms == [x \in DOMAIN c.an |-> [k |-> "attr", n |-> c.an[x]]]
                 \o [x \in DOMAIN c.rn |-> [k |-> "meth", n |-> c.rn[x]]]
       IN Flat([x \in DOMAIN ms |->
                  LET sub == Chains(CT, StepType(CT, t, ms[x]), d - 1)
                  IN <<<<ms[x]>>>> \o [y \in DOMAIN sub |-> <<ms[x]>> \o sub[y]]])
ReadsOf(w) ==
  LET D == ModelD(w)
      ss == Starts(w)
  IN Flat([x \in DOMAIN ss |->
             LET ch == Chains(D.classes, StartType(D, ss[x]), MaxSteps(w))
             IN (IF ss[x].k = "param" THEN <<>> ELSE <<[s |-> ss[x], p |-> <<>>]>>)
                \o [y \in DOMAIN ch |-> [s |-> ss[x], p |-> ch[y]]]])

(* what makes a world interesting (vacuity guards of the driver)                                 *)
Collides(w) ==
  w.fam = "dag" /\
  \E k1, k2 \in DOMAIN w.mods : k1 # k2 /\
    \E x \in DOMAIN w.mods[k1], y \in DOMAIN w.mods[k2] :
      /\ w.mods[k1][x].a # "" /\ w.mods[k1][x].a = w.mods[k2][y].a
      /\ w.mods[k1][x].t # w.mods[k2][y].t
TVRank == [K |-> 1, T |-> 2, V |-> 3]
NonAlpha(w) ==
  w.fam = "gen" /\ \E x, y \in DOMAIN w.params : x < y /\ TVRank[w.params[y]] < TVRank[w.params[x]]

(* a read goes THROUGH a nested class: the type of some prefix of its path (in table D) is a       *)
(* nested class or a class whose first base is one                                                *)
IsNestedT(CT, t) ==
  /\ t[1] = "cls"
  /\ \/ t[2] \in NestedNames
     \/ /\ t[2] \in DOMAIN CT /\ Len(CT[t[2]].bases) > 0 /\ CT[t[2]].bases[1][2] \in NestedNames
ThroughNested(D, r) ==
  \E k \in 0 .. Len(r.p) : IsNestedT(D.classes, Walk(D.classes, StartType(D, r.s), SubSeq(r.p, 1, k)))

(* ---------------------------------------------------------------- verdict for a recorded world *)
(* c == [fam, w, reads, decls |-> recorded D, seen |-> [cfg |-> <<type of read j in B>>], errs]    *)
(*   "wtype"  B's type of a read differs from what the upstream analyses inferred for it           *)
(*   "wagree" two configurations give B different types for the same read                         *)
(*   "error"  spurious import / pyi error in B                                                    *)
(*   "mach:reads" the driver's reads are not the spec's Derive (machinery), "pred": the recorded   *)
(*   upstream declarations differ from the model's (a matter of the upstream analysis, logged)    *)
WTypeFails(c) ==
  UNION {{<<"wtype", j, cfg>> :
            cfg \in {x \in DOMAIN c.seen :
                       LET e == PathType(c.decls, c.reads[j])
                       IN e[1] # "unknown" /\ ~TypeEq(c.seen[x][j], e)}}
         : j \in DOMAIN c.reads}
WAgreeFails(c) ==
  UNION {{<<"wagree", j, PairName(pr)>> :
            pr \in {q \in CfgPairs : ~TypeEq(c.seen[q[1]][j], c.seen[q[2]][j])}}
         : j \in DOMAIN c.reads}
WPredFails(c) ==
  {<<"pred", j, "">> : j \in {x \in DOMAIN c.reads :
       ~TypeEq(PathType(c.decls, c.reads[x]), PathType(ModelD(c.w), c.reads[x]))}}
WorldFails(c) ==
  IF c.reads # ReadsOf(c.w) THEN {<<"mach:reads", 0, "">>}
  ELSE WTypeFails(c) \cup WAgreeFails(c) \cup ErrFails(c) \cup WPredFails(c)
=============================================================================

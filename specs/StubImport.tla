----------------------------- MODULE StubImport -----------------------------
(* C06: a module seen through its emitted stub keeps the types that were inferred for it.       *)
(* Lifecycle: Analyze(A) -> Emit(stub of A as text / as pickled AST) -> Analyze(B) where B       *)
(* reads names of A -> Compare.  exported[n] is the type A's analysis inferred for A's name n,   *)
(* seen[cfg][n] the type the reader slot of B got under configuration cfg in                     *)
(*   {"pythonpath" (stub text found on the python path), "imports_map" (stub text through an      *)
(*    imports-map entry), "pickled" (pickled AST through an imports-map entry)}.                  *)
(* Invariant: TypeEq(seen[cfg][n], exported[n]) for every cfg, and B's analysis reports neither  *)
(* an import error nor a pyi error.                                                              *)
EXTENDS PytdTypes

(* members of a (possibly nested) union; a non-union is a union of one *)
RECURSIVE Members(_)
Members(t) == IF t[1] = "union" THEN UNION {Members(t[3][k]) : k \in DOMAIN t[3]} ELSE {t}

(* structural equality modulo union order / duplication / nesting (Optional[X] is X | None) *)
RECURSIVE TypeEq(_, _)
TypeEq(t, u) ==
  IF t[1] = "union" \/ u[1] = "union"
    THEN /\ \A a \in Members(t) : \E b \in Members(u) : TypeEq(a, b)
         /\ \A b \in Members(u) : \E a \in Members(t) : TypeEq(a, b)
    ELSE /\ t[1] = u[1] /\ t[2] = u[2] /\ Len(t[3]) = Len(u[3])
         /\ \A k \in DOMAIN t[3] : TypeEq(t[3][k], u[3][k])

Configs == {"pythonpath", "imports_map", "pickled"}
BadErrors == {"import-error", "pyi-error"}

(* one reader slot: [n, k |-> "name"|"attr"|"meth", ta |-> exported type, tb |-> [cfg |-> seen]]   *)
SlotFails(s) ==
  {c \in DOMAIN s.tb : ~TypeEq(s.tb[c], s.ta)}

(* DOCUMENTED DEVIATION "none-attr-any": an attribute read whose exported type admits None is     *)
(* seen as Any (the VM replaces possibly-None attribute bindings by Any unless                     *)
(* --strict-none-binding is on; vm.py _filter_none_and_paste_bindings).                            *)
NoneAttrAny(s, cfg) ==
  /\ s.k = "attr" /\ s.tb[cfg][1] = "any"
  /\ <<"cls", "NoneType", <<>>>> \in Members(s.ta)

TypeFails(c) ==
  UNION {{<<IF NoneAttrAny(c.slots[k], cfg) THEN "type:none-attr-any" ELSE "type", k, cfg>>
            : cfg \in SlotFails(c.slots[k])} : k \in DOMAIN c.slots}
ErrFails(c) ==
  UNION {{<<"error", e, x>> : e \in (BadErrors \cap SeqToSet(c.errs[x]))} : x \in DOMAIN c.errs}
CaseFails(c) == TypeFails(c) \cup ErrFails(c)
=============================================================================

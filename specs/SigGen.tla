------------------------------- MODULE SigGen -------------------------------
(* Generators of the two program families that C04 (Determinism.tla) adds to the ProgGen         *)
(* programs and the test snippets:                                                               *)
(*                                                                                               *)
(* 1. annotated signatures over UNIONS.  A union is a set of 2..MaxUnion members of the          *)
(*    alphabet Atoms (scalars, the PEP 484 "compatible" pairs, None, containers); it is written  *)
(*    in every Position of a signature (parameter, parameter with default, method parameter,     *)
(*    *args/**kwargs, nested in a container parameter, return, class attribute, module           *)
(*    variable).  How pytype prints a union may depend on where it stands: in parameter position *)
(*    members that a wider member can stand in for (Compat) are pruned.  Survivors / Sensitive   *)
(*    classify the unions; the driver's vacuity guard is stated in these terms.  Compat is       *)
(*    PEP 484's numeric tower plus the bytes shorthand, pinned here (NOT read from pytype).      *)
(*                                                                                               *)
(* 2. OPEN functions: n un-annotated parameters that reappear in the return value, so that the   *)
(*    inferred signature mentions every parameter's unknown twice and (with option protocols)    *)
(*    is printed with generated type parameters.                                                 *)
(*                                                                                               *)
(* TLC enumerates Items (one initial state per item); the driver renders them to Python.         *)
EXTENDS Naturals, Sequences, FiniteSets, TLC, Json

CONSTANTS MaxUnion, MaxParams

Atoms == {"int", "float", "complex", "bool", "str", "bytes", "bytearray", "memoryview", "None",
          "List[int]", "Dict[str, int]"}
(* <<t, w>>: wherever w is accepted t is accepted too, so t is redundant next to w in a parameter *)
Compat == {<<"int", "float">>, <<"int", "complex">>, <<"float", "complex">>,
           <<"bytearray", "bytes">>, <<"memoryview", "bytes">>}
Survivors(U) == {t \in U : ~\E c \in Compat : c[1] = t /\ c[2] \in U}
Pruned(U) == Survivors(U) # U
(* pruning happens and leaves more than one possible order of the rest *)
Sensitive(U) == Pruned(U) /\ Cardinality(Survivors(U)) >= 2

ParamPositions == {"param", "default", "method", "star", "nested"}
OtherPositions == {"return", "attr", "var"}

Unions == {U \in SUBSET Atoms : Cardinality(U) >= 2 /\ Cardinality(U) <= MaxUnion}

(* how the parameters of an open function come back *)
Returns == {"rot",      \* (pn, p1, ..., pn-1)
            "list",     \* [p1, pn]
            "dict",     \* {p1: pn}
            "first",    \* p1
            "cond",     \* p1 if p2 else pn
            "nest"}     \* ((p1, pn), [p2])
(* parameters that occur in the return value (and so get a type parameter) *)
Reused(n, ret) ==
  CASE ret = "rot" -> n
    [] ret = "first" -> 1
    [] ret \in {"list", "dict"} -> IF n = 1 THEN 1 ELSE 2
    [] OTHER -> IF n <= 2 THEN n ELSE 3

Items ==
  {[kind |-> "union", u |-> U, surv |-> Cardinality(Survivors(U)), sens |-> Sensitive(U),
    n |-> 0, ret |-> "", meth |-> FALSE, star |-> FALSE, reused |-> 0] : U \in Unions}
  \cup
  {[kind |-> "fn", u |-> {}, surv |-> 0, sens |-> FALSE,
    n |-> n, ret |-> r, meth |-> m, star |-> s, reused |-> Reused(n, r)] :
     n \in 1 .. MaxParams, r \in Returns, m \in BOOLEAN, s \in BOOLEAN}

VARIABLE item
Init == item \in Items
Next == FALSE /\ UNCHANGED item
ExportInv == PrintT(<<"CASE", ToJson(item)>>)
=============================================================================

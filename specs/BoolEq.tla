------------------------------- MODULE BoolEq -------------------------------
(* C17 - boolean-equation terms of pytype/pytd/booleq.py.                                     *)
(*                                                                                            *)
(* Terms are records [k, l, r, cs]:                                                           *)
(*   k = "true" | "false"            the singletons booleq.TRUE / booleq.FALSE                *)
(*   k = "eq"                        _Eq(left = l, right = r), two names                      *)
(*   k = "and" | "or"                _And(exprs = cs) / _Or(exprs = cs), cs a SET of terms    *)
(* Names (variables and values) live in ONE ordered name space: the code compares them as     *)
(* Python strings (Eq puts the greater name on the left).  The model uses the numbers         *)
(* 1..NNames for names, ordered by <; the driver maps them to strings whose string order is   *)
(* the same.  VarNames says which names are variables.  pytype's own variables ("~unknown1")  *)
(* sort above every class name, which makes _Eq.left the variable that _Eq.simplify looks up; *)
(* the model does not assume this: any subset of the names may be the variables.              *)
(*                                                                                            *)
(* Constructors (MkEq / MkAnd / MkOr = booleq.Eq / And / Or, the latter two through           *)
(* simplify_exprs) and Simplify(t, A) (= term.simplify(assignments)) follow the code line by  *)
(* line; Eval(t, s) is the declarative meaning under an assignment s : VarNames -> Values.    *)
(*                                                                                            *)
(* The state machine enumerates constructor applications: a state is one application          *)
(* (op, names, args); from an application whose result is small enough the next application   *)
(* takes that result as its first argument and further arguments from the pool of terms of    *)
(* depth < MaxDepth.  Every application And(S)/Or(S) with S drawn from the pool, |S| <=       *)
(* MaxArgs (optionally with a duplicated argument), and every Eq(l, r) is a state.            *)
EXTENDS Naturals, Sequences, FiniteSets, SequencesExt, TLC, Json

CONSTANTS NNames,     \* names are 1..NNames, in the code's (string) order
          VarNames,   \* the names that are variables; the others are values
          MaxDepth,   \* applications nest to this depth (eq = depth 0)
          MaxArgs,    \* maximal number of arguments of And/Or
          AllowDup,   \* also pass the first argument twice (argument lists are iterables)
          Export      \* print the pool / the applications for the driver

Names  == 1 .. NNames
Values == Names \ VarNames
Rank(n) == n

ASSUME VarNames \subseteq Names /\ VarNames # {} /\ Values # {}

-----------------------------------------------------------------------------
(* Terms *)
TT == [k |-> "true", l |-> 0, r |-> 0, cs |-> {}]
FF == [k |-> "false", l |-> 0, r |-> 0, cs |-> {}]
EqT(l, r) == [k |-> "eq", l |-> l, r |-> r, cs |-> {}]
Comp(kind, S) == [k |-> kind, l |-> 0, r |-> 0, cs |-> S]

(* booleq.Eq: TRUE for identical names, otherwise the greater name goes left *)
MkEq(l, r) == IF l = r THEN TT
              ELSE IF Rank(l) > Rank(r) THEN EqT(l, r) ELSE EqT(r, l)

(* booleq.simplify_exprs(exprs, result_type, stop_term, skip_term).  E is the sequence of     *)
(* subexpressions; the loop returns at the first stop term, skips skip terms, splices in the  *)
(* children of a same-kind term and collects everything else in a set.                        *)
SimplifyExprs(E, kind, stop, skip) ==
  IF \E i \in DOMAIN E : E[i] = stop /\ \A j \in 1 .. i - 1 : E[j] # stop THEN stop
  ELSE LET S == UNION {IF E[i] = skip THEN {}
                       ELSE IF E[i].k = kind THEN E[i].cs ELSE {E[i]} : i \in DOMAIN E} IN
       IF Cardinality(S) > 1 THEN Comp(kind, S)
       ELSE IF S # {} THEN CHOOSE e \in S : TRUE
       ELSE skip

MkAnd(E) == SimplifyExprs(E, "and", FF, TT)
MkOr(E)  == SimplifyExprs(E, "or", TT, FF)
Mk(o, E) == IF o = "and" THEN MkAnd(E) ELSE MkOr(E)

(* term.simplify(assignments); A : VarNames -> SUBSET Values.                                 *)
(* _Eq.simplify: "if self.right in assignments: return self" (an equality whose right side is *)
(* a variable is kept), otherwise FALSE unless right is among assignments[left].              *)
RECURSIVE Simplify(_, _)
Simplify(t, A) ==
  CASE t.k \in {"true", "false"} -> t
    [] t.k = "eq" -> IF t.r \in DOMAIN A THEN t
                     ELSE IF t.r \in A[t.l] THEN t ELSE FF
    [] t.k = "and" -> MkAnd(SetToSeq({Simplify(c, A) : c \in t.cs}))
    [] t.k = "or"  -> MkOr(SetToSeq({Simplify(c, A) : c \in t.cs}))

-----------------------------------------------------------------------------
(* Meaning *)
Sigma  == [VarNames -> Values]               \* assignments of values to variables
Tables == [VarNames -> SUBSET Values]        \* "still possible values" per variable
SigmaOf(A) == {s \in Sigma : \A v \in VarNames : s[v] \in A[v]}
ValOf(n, s) == IF n \in VarNames THEN s[n] ELSE n

RECURSIVE Eval(_, _)
Eval(t, s) ==
  CASE t.k = "true" -> TRUE
    [] t.k = "false" -> FALSE
    [] t.k = "eq" -> ValOf(t.l, s) = ValOf(t.r, s)
    [] t.k = "and" -> \A c \in t.cs : Eval(c, s)
    [] t.k = "or" -> \E c \in t.cs : Eval(c, s)

Truth(t) == {s \in Sigma : Eval(t, s)}

(* Normal form promised by the constructors: no TRUE/FALSE and no same-kind term directly     *)
(* below an and/or.                                                                           *)
NFTop(t) == t.k \in {"and", "or"} => \A c \in t.cs : c.k \notin {"true", "false", t.k}
RECURSIVE NFDeep(_)
NFDeep(t) == /\ NFTop(t)
             /\ (t.k \in {"and", "or"} => Cardinality(t.cs) >= 2)
             /\ \A c \in t.cs : NFDeep(c)

(* the property's three clauses, over arbitrary argument terms (used on the model state and,  *)
(* in TraceC17, on the structure of the real terms)                                           *)
EqMeaning(res, l, r) == \A s \in Sigma : Eval(res, s) = (ValOf(l, s) = ValOf(r, s))
CompMeaning(o, res, E) ==
  \A s \in Sigma : Eval(res, s) = IF o = "and" THEN \A i \in DOMAIN E : Eval(E[i], s)
                                                ELSE \E i \in DOMAIN E : Eval(E[i], s)
SimpMeaning(t, st, A) == \A s \in SigmaOf(A) : Eval(st, s) = Eval(t, s)

-----------------------------------------------------------------------------
(* The pool of argument terms: everything the constructors build up to depth MaxDepth - 1     *)
EqPairs == {p \in Names \X Names : p[1] \in VarNames \/ p[2] \in VarNames}
Atoms == {TT, FF} \cup {MkEq(p[1], p[2]) : p \in EqPairs}

RECURSIVE SetsUpTo(_, _)
SetsUpTo(P, n) == IF n = 0 THEN {{}}
                  ELSE LET R == SetsUpTo(P, n - 1) IN R \cup {s \cup {a} : s \in R, a \in P}

RECURSIVE Pool(_)
Pool(n) == IF n = 0 THEN Atoms
           ELSE LET P == Pool(n - 1)
                    SS == SetsUpTo(P, MaxArgs) IN
                P \cup {MkAnd(SetToSeq(S)) : S \in SS} \cup {MkOr(SetToSeq(S)) : S \in SS}

PoolTop == Pool(MaxDepth - 1)
PoolSeq == SetToSeq(PoolTop)
NPool == Len(PoolSeq)
IdxOf(t) == CHOOSE i \in 1 .. NPool : PoolSeq[i] = t

ASSUME Export => PrintT(<<"POOL", ToJson(PoolSeq)>>)

-----------------------------------------------------------------------------
(* State: one constructor application *)
VARIABLES op,      \* "true" | "false" | "eq" | "and" | "or" (applications) | "pick"
          names,   \* <<l, r>> for "eq"
          args     \* for "and"/"or": indices into PoolSeq, in the order passed to the code
vars == <<op, names, args>>

ArgTerms == [j \in DOMAIN args |-> PoolSeq[args[j]]]
Res == CASE op = "true" -> TT
         [] op = "false" -> FF
         [] op = "eq" -> MkEq(names[1], names[2])
         [] op \in {"and", "or"} -> Mk(op, ArgTerms)
         [] op = "pick" -> PoolSeq[args[1]]

Init == \/ op \in {"true", "false", "and", "or"} /\ names = <<>> /\ args = <<>>
        \/ op = "eq" /\ args = <<>> /\ \E p \in EqPairs : names = p

(* An application whose result is in the pool is followed by the "pick" state that selects     *)
(* this result (args = <<its index>>) as the first argument of the next application.           *)
Pick ==
  /\ op # "pick" /\ MaxDepth >= 1
  /\ Res \in PoolTop
  /\ op' = "pick" /\ names' = <<>> /\ args' = <<IdxOf(Res)>>

Apply ==
  /\ op = "pick"
  /\ LET me == args[1] IN
     \E o \in {"and", "or"}, S \in SetsUpTo((1 .. NPool) \ {me}, MaxArgs - 1),
        dup \in (IF AllowDup THEN BOOLEAN ELSE {FALSE}) :
       /\ dup => Cardinality(S) <= MaxArgs - 2
       /\ op' = o /\ names' = <<>>
       /\ args' = <<me>> \o SetToSeq(S) \o (IF dup THEN <<me>> ELSE <<>>)

Next == Pick \/ Apply

Spec == Init /\ [][Next]_vars

(* the order of the arguments does not matter to the model: one state per argument multiset  *)
View == <<op, names, ToSet(args), Len(args)>>

-----------------------------------------------------------------------------
(* Invariants (checked by TLC on every application) *)
TypeOK == /\ op \in {"true", "false", "eq", "and", "or", "pick"}
          /\ \A j \in DOMAIN args : args[j] \in 1 .. NPool
          /\ Len(args) <= MaxArgs

(* constructors are logically equivalent to the connectives *)
InvMeaning ==
  CASE op = "eq" -> EqMeaning(Res, names[1], names[2])
    [] op \in {"and", "or"} -> CompMeaning(op, Res, ArgTerms)
    [] OTHER -> TRUE

(* results are in normal form (arguments are, by induction) *)
InvNF == NFDeep(Res)

(* simplification against any table keeps the truth value under every assignment drawn from  *)
(* the table, and yields a normal form again                                                  *)
InvSimplify ==
  LET t == Res IN
  \A A \in Tables : LET st == Simplify(t, A) IN SimpMeaning(t, st, A) /\ NFDeep(st)

(* simplifying twice changes nothing; simplifying against the full table changes nothing      *)
InvSimplifyStable ==
  LET t == Res IN
  /\ \A A \in Tables : LET st == Simplify(t, A) IN Simplify(st, A) = st
  /\ Simplify(t, [v \in VarNames |-> Values]) = t

(* an equality term always has the greater name on the left *)
InvEqOrdered ==
  LET RECURSIVE Ord(_)
      Ord(t) == /\ (t.k = "eq" => Rank(t.l) > Rank(t.r))
                /\ \A c \in t.cs : Ord(c)
  IN Ord(Res)

ExportInv == (Export /\ op # "pick") => PrintT(<<"CASE", ToJson([op |-> op, names |-> names, args |-> args])>>)
=============================================================================

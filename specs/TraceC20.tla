------------------------------ MODULE TraceC20 ------------------------------
(* Code -> spec for C20.  One case = one (program, stub) pair that went through the real        *)
(* merge_pyi.merge_sources.  The driver records, for the original, the stub and the merged      *)
(* text, the annotation *sites* (see harness/c20_obs.py) and the digest of the syntax tree      *)
(* after removing annotations, added imports and added TypeVar definitions; the verdict is      *)
(* computed here and is total: every failing clause of every case is printed as a BAD line.     *)
(*                                                                                            *)
(*   fam   "table"    the pair was rendered from a slot table t of MergePyi.tla (names[k] /      *)
(*                    leaves[k] = site name / bare variable name of slot k)                      *)
(*         "inferred" a program and the stub pytype inferred for it                              *)
(*   err   "" or the exception merge_sources raised;  compiles: the merged text compiles        *)
(*   d0, d1  digest of the stripped original / stripped merged tree (e0, e1, added_classes,     *)
(*           added_generic: see stub-only-class-inserted); qual: the stub spells typing.Any      *)
(*   orig, stub, out   sequences of sites [id, k, sc, q, q2, leaf, a, u, pk]                      *)
(*                                                                                            *)
(* Property clauses (BAD):                                                                     *)
(*   merge-error, not-compiling, tree-changed                                                  *)
(*   stub-only-class-inserted / generic-base-added   tree-changed, attributed: the trees are     *)
(*                                             equal (e0 = e1) once the top-level classes that   *)
(*                                             only the stub defines and all Generic[..] bases    *)
(*                                             are removed                                       *)
(*   existing-dropped / existing-changed       an annotation of the original is gone / differs  *)
(*                                             (whatever it says: the author's own `-> Any`,     *)
(*                                             `v: Never = e` or value-less `v: Any` count; a      *)
(*                                             deleted declaration is a dropped "decl" site)      *)
(*   inserted-not-from-stub                    a new annotation is not the stub's type for that *)
(*                                             definition                                       *)
(*   stray-class-target-at-module-level        the same, attributed: a module-level declaration *)
(*                                             `v: T` that is not the stub's type of a module    *)
(*                                             variable v but of a class attribute v             *)
(*   kwonly-annotation-import-not-added        the same, attributed: a keyword-only parameter    *)
(*                                             got the stub's text but the names in it resolve   *)
(*                                             differently (the import was not added)            *)
(*   bare-any-never-return / -variable         Any / Never inserted on a return / variable      *)
(*   qualified-any-never-return / -variable    the same, attributed: the stub spelled it        *)
(*                                             typing.Any / typing.Never                        *)
(* Operational prediction (DIV, never a verdict): per slot of a table, what the code did vs     *)
(* Merge(TRUE, t) (as coded) and Merge(FALSE, t) (rule table); stray declarations vs Stray.      *)
EXTENDS MergePyiOps, Json, IOUtils, TLC, TLCExt

Cases == JsonDeserialize(IOEnv.TRACE_FILE)

VARIABLE i

ToSet(s) == {s[x] : x \in DOMAIN s}

BareAnyNever == {"typing.Any", "typing.Never", "typing_extensions.Never", "Any", "Never"}
SpelledBare == {"Any", "Never"}

Ids(sites) == {sites[x].id : x \in DOMAIN sites}
SiteOf(sites, id) == sites[CHOOSE x \in DOMAIN sites : sites[x].id = id]
StubAt(c, q) == IF q = "" THEN {} ELSE {s \in ToSet(c.stub) : s.q = q}
StubTexts(c, s) == {x.u : x \in StubAt(c, s.q) \cup StubAt(c, s.q2)}
Inserted(c) == {s \in ToSet(c.out) : s.id \notin Ids(c.orig)}
IsVar(s) == s.k \in {"var", "decl"}
(* an existing annotation, for the report: "<id> <definition>: <text as written>" *)
Show(s) == s.id \o " " \o s.q \o ": " \o s.a

(* the stray declaration pattern *)
IsStray(c, s) ==
  /\ s.k = "decl" /\ s.sc = "module"
  /\ \E x \in ToSet(c.stub) : x.sc = "class" /\ x.leaf = s.leaf /\ x.u = s.u /\ s.leaf # ""

(* the stub sites an inserted annotation was taken from (for a stray declaration: the class     *)
(* attributes of that name), and how the stub spelled it there                                  *)
Givers(c, s) ==
  StubAt(c, s.q) \cup StubAt(c, s.q2)
  \cup (IF IsStray(c, s) THEN {x \in ToSet(c.stub) : x.sc = "class" /\ x.leaf = s.leaf} ELSE {})
StubSpellings(c, s) == {x.a : x \in {y \in Givers(c, s) : y.u = s.u}}

SiteFails(c, s) ==
  LET fromStub == s.u \in StubTexts(c, s)
      bare == s.u \in BareAnyNever /\ s.k # "param"
      qualified == bare /\ StubSpellings(c, s) # {} /\ StubSpellings(c, s) \cap SpelledBare = {}
      what == IF IsVar(s) THEN "variable" ELSE "return" IN
  (IF fromStub THEN {}
   ELSE IF IsStray(c, s) THEN {<<"stray-class-target-at-module-level", s.q>>}
   ELSE IF s.pk = "kwonly" /\ s.a \in {x.a : x \in StubAt(c, s.q)}
     THEN {<<"kwonly-annotation-import-not-added", s.q>>}
   ELSE {<<"inserted-not-from-stub", s.id>>})
  \cup (IF bare /\ ~qualified THEN {<<"bare-any-never-" \o what, s.q>>} ELSE {})
  \cup (IF qualified THEN {<<"qualified-any-never-" \o what, s.q>>} ELSE {})

Fails(c) ==
  (IF c.err # "" THEN {<<"merge-error", "">>} ELSE {})
  \cup (IF c.err = "" /\ ~c.compiles THEN {<<"not-compiling", "">>} ELSE {})
  \cup (IF c.err = "" /\ c.compiles /\ c.d0 # c.d1
        THEN IF c.e0 # "" /\ c.e0 = c.e1 /\ (c.added_classes # <<>> \/ c.added_generic # <<>>)
               THEN {<<"stub-only-class-inserted", x>> : x \in ToSet(c.added_classes)}
                    \cup {<<"generic-base-added", x>> : x \in ToSet(c.added_generic)}
               ELSE {<<"tree-changed", "">>}
        ELSE {})
  \cup (IF c.err = "" /\ c.compiles
        THEN {<<"existing-dropped", Show(SiteOf(c.orig, id))>> : id \in Ids(c.orig) \ Ids(c.out)}
             \cup {<<"existing-changed", Show(SiteOf(c.orig, id)) \o " became " \o SiteOf(c.out, id).a>> :
                     id \in {x \in Ids(c.orig) \cap Ids(c.out) : SiteOf(c.orig, x).a # SiteOf(c.out, x).a}}
             \cup UNION {SiteFails(c, s) : s \in Inserted(c)}
        ELSE {})

-----------------------------------------------------------------------------
(* operational prediction for table cases *)
ObsSlot(c, k) ==
  LET S == {s \in ToSet(c.out) : s.q = c.names[k]} IN
  IF S = {} THEN "none"
  ELSE IF \E s \in S : s.id \in Ids(c.orig) THEN "ex" ELSE "st"

ObsStray(c) ==
  {s.q : s \in {x \in Inserted(c) : x.k = "decl" /\ x.sc = "module" /\ x.q \notin ToSet(c.names)}}
PredStray(c, asCoded) == {c.leaves[k] : k \in Stray(asCoded, c.t)}

Divs(c) ==
  IF c.fam # "table" \/ c.qual \/ c.err # "" \/ ~c.compiles THEN {}
  ELSE LET coded == Merge(TRUE, c.t)
           rule == Merge(FALSE, c.t) IN
       {<<"slot", k, ObsSlot(c, k), coded[k], rule[k]>> :
          k \in {x \in DOMAIN c.t.slots : ObsSlot(c, x) \notin {coded[x], rule[x]}}}

StrayDiv(c) ==
  IF c.fam # "table" \/ c.qual \/ c.err # "" \/ ~c.compiles THEN FALSE
  ELSE ObsStray(c) \notin {PredStray(c, TRUE), PredStray(c, FALSE)}

(* which of the two models the code followed where they differ (informational) *)
Follows(c) ==
  IF c.fam # "table" \/ c.qual \/ c.err # "" \/ ~c.compiles THEN {}
  ELSE LET coded == Merge(TRUE, c.t)
           rule == Merge(FALSE, c.t) IN
       {<<k, IF ObsSlot(c, k) = coded[k] THEN "coded" ELSE "rule">> :
          k \in {x \in DOMAIN c.t.slots : coded[x] # rule[x] /\ ObsSlot(c, x) \in {coded[x], rule[x]}}}

TInit == i = 1 /\ TLCSet(1, FALSE)
TNext == /\ i <= Len(Cases)
         /\ i' = i + 1
         /\ (i' > Len(Cases) => TLCSet(1, TRUE))

Ok == i <= Len(Cases) =>
        LET c == Cases[i] IN
        /\ LET f == Fails(c) IN f = {} \/ PrintT(<<"BAD", ToJson([i |-> i, fails |-> f])>>)
        /\ LET d == Divs(c) IN d = {} \/ PrintT(<<"DIV", ToJson([i |-> i, divs |-> d])>>)
        /\ ~StrayDiv(c) \/ PrintT(<<"DIVS", ToJson([i |-> i, obs |-> ObsStray(c), coded |-> PredStray(c, TRUE)])>>)
        /\ LET w == Follows(c) IN w = {} \/ PrintT(<<"FOLLOWS", ToJson([i |-> i, slots |-> w])>>)

Done == TLCGet(1)
=============================================================================

----------------------------- MODULE FlowState -----------------------------
(* C18 - the flow layer of pytype's rewrite engine:                                           *)
(*   pytype/rewrite/flow/conditions.py   Condition terms, Not/And/Or = _Not.make/_Composite.make *)
(*   pytype/rewrite/flow/variables.py    Binding(value, condition), Variable(bindings, name)   *)
(*   pytype/rewrite/flow/state.py        BlockState(locals, condition, locals_with_block_cond) *)
(*                                                                                            *)
(* Condition terms are records [k, a, cs]:                                                    *)
(*   k = "true" | "false"   the singletons TRUE / FALSE                                       *)
(*   k = "atom", a = name   an atomic condition (any other Condition subclass instance)       *)
(*   k = "not", cs = {c}    _Not(c)                                                           *)
(*   k = "and" | "or"       _And(frozenset cs) / _Or(frozenset cs)                            *)
(* A Variable is [b |-> sequence of [v, c], name |-> "" or a name]; a BlockState is           *)
(* [loc |-> function name -> Variable, cond |-> condition, lwbc |-> set of names].            *)
(*                                                                                            *)
(* Meaning: a valuation s is the set of atoms that are true.                                  *)
(*   Vals(S, n, s) = { b.v : b in S.loc[n].b, s |= b.c /\ (n \in S.lwbc => s |= S.cond) }     *)
(* (names in lwbc carry the block condition implicitly: merge_into makes it explicit with     *)
(* var.with_condition(self._condition) exactly for those names).                              *)
(*                                                                                            *)
(* Two state machines live here (selected by the cfg's INIT/NEXT):                            *)
(*   CInit/CNext  enumerate the applications of Not/And/Or to argument sequences drawn from   *)
(*                the pool of condition terms of smaller depth (like BoolEq.tla);             *)
(*   SInit/SNext  two registers A, B of block states evolved by the public operations:        *)
(*                construction, store_local (of from_value / load_local / literal variables), *)
(*                with_condition, merge_into (both directions, into either register),         *)
(*                merge_into(None).                                                           *)
EXTENDS Naturals, Sequences, FiniteSets, SequencesExt, TLC, Json

CONSTANTS Atoms,       \* all atomic conditions (valuations range over SUBSET Atoms)
          WAtoms,      \* atoms used by the conditions that the operations draw from
          CondDepth,   \* depth of the conditions drawn by with_condition / construction
          LitDepth,    \* depth of the conditions inside literal variables
          Names,       \* local names
          Values,      \* values
          MaxSteps,    \* length of operation histories (S machine)
          PoolDepth,   \* C machine: arguments come from the terms of depth <= PoolDepth
          MaxCArgs,    \* C machine: maximal number of arguments of And/Or
          DupValues,   \* S machine: also literal variables with one value bound twice (probe)
          Ops,         \* S machine: the enabled operations
          Export

-----------------------------------------------------------------------------
(* Conditions *)
CT == [k |-> "true", a |-> "", cs |-> {}]
CF == [k |-> "false", a |-> "", cs |-> {}]
AtomT(x) == [k |-> "atom", a |-> x, cs |-> {}]
NotT(c) == [k |-> "not", a |-> "", cs |-> {c}]
CompT(kind, S) == [k |-> kind, a |-> "", cs |-> S]
Child(c) == CHOOSE x \in c.cs : TRUE

(* _Not.make: double negation collapses, nothing else (Not(TRUE) stays _Not(TRUE)) *)
MkNot(c) == IF c.k = "not" THEN Child(c) ELSE NotT(c)

(* _Composite.make(args...): the loop over the arguments, acc = the set built so far.          *)
(* And: ACCEPT = FALSE, IGNORE = TRUE;  Or: ACCEPT = TRUE, IGNORE = FALSE.                    *)
Accept(kind) == IF kind = "and" THEN CF ELSE CT
Ignore(kind) == IF kind = "and" THEN CT ELSE CF
RECURSIVE Compose(_, _, _, _)
Compose(kind, E, i, acc) ==
  IF i > Len(E)
    THEN IF acc = {} THEN Ignore(kind)
         ELSE IF Cardinality(acc) = 1 THEN CHOOSE x \in acc : TRUE
         ELSE CompT(kind, acc)
  ELSE IF E[i] = Ignore(kind) THEN Compose(kind, E, i + 1, acc)
  ELSE IF E[i] = Accept(kind) THEN Accept(kind)
  ELSE IF MkNot(E[i]) \in acc THEN Accept(kind)          \* x and not x / x or not x
  ELSE Compose(kind, E, i + 1, acc \cup {E[i]})

MkAnd(E) == Compose("and", E, 1, {})
MkOr(E)  == Compose("or", E, 1, {})
MkC(o, E) == CASE o = "not" -> MkNot(E[1]) [] o = "and" -> MkAnd(E) [] o = "or" -> MkOr(E)

Valuations == SUBSET Atoms
RECURSIVE Eval(_, _)
Eval(c, s) ==
  CASE c.k = "true" -> TRUE
    [] c.k = "false" -> FALSE
    [] c.k = "atom" -> c.a \in s
    [] c.k = "not" -> ~Eval(Child(c), s)
    [] c.k = "and" -> \A x \in c.cs : Eval(x, s)
    [] c.k = "or" -> \E x \in c.cs : Eval(x, s)
Truth(c) == {s \in Valuations : Eval(c, s)}

(* constructor == connective *)
ConnMeaning(o, res, E) ==
  \A s \in Valuations :
    Eval(res, s) = CASE o = "not" -> ~Eval(E[1], s)
                     [] o = "and" -> \A i \in DOMAIN E : Eval(E[i], s)
                     [] o = "or" -> \E i \in DOMAIN E : Eval(E[i], s)

(* all sequences over P of length <= n *)
RECURSIVE SeqsUpTo(_, _)
SeqsUpTo(P, n) == IF n = 0 THEN {<<>>}
                  ELSE LET R == SeqsUpTo(P, n - 1) IN R \cup {Append(q, x) : q \in R, x \in P}

(* the condition terms over atom set At that the constructors build up to depth d, with at    *)
(* most w arguments per And/Or                                                                *)
RECURSIVE CPool(_, _, _)
CPool(At, d, w) ==
  IF d = 0 THEN {CT, CF} \cup {AtomT(x) : x \in At}
  ELSE LET P == CPool(At, d - 1, w) IN
       P \cup {MkNot(c) : c \in P}
         \cup {MkAnd(E) : E \in SeqsUpTo(P, w)} \cup {MkOr(E) : E \in SeqsUpTo(P, w)}

-----------------------------------------------------------------------------
(* Variables and block states *)
Bnd(v, c) == [v |-> v, c |-> c]
FromValue(v) == [b |-> <<Bnd(v, CT)>>, name |-> ""]            \* Variable.from_value

(* Variable.with_condition: "if condition is TRUE: return self", otherwise every binding's    *)
(* condition becomes And(b.condition, condition)                                              *)
VarWith(var, c) ==
  IF c = CT THEN var
  ELSE [var EXCEPT !.b = [i \in DOMAIN var.b |-> Bnd(var.b[i].v, MkAnd(<<var.b[i].c, c>>))]]

Construct(locals, c) == [loc |-> locals, cond |-> c, lwbc |-> DOMAIN locals]
NoLocals == [n \in {} |-> 0]
Empty == Construct(NoLocals, CT)

Has(S, n) == n \in DOMAIN S.loc
LoadLocal(S, n) == [S.loc[n] EXCEPT !.name = n]                 \* .with_name(name)
StoreLocal(S, n, var) ==
  [S EXCEPT !.loc = (n :> var) @@ S.loc, !.lwbc = S.lwbc \cup {n}]

WithCondition(S, c) ==
  LET nc == MkAnd(<<S.cond, c>>) IN
  [loc |-> [n \in DOMAIN S.loc |-> IF n \in S.lwbc THEN S.loc[n] ELSE VarWith(S.loc[n], nc)],
   cond |-> nc, lwbc |-> S.lwbc]

(* the dict {value: condition} that merge_into builds (insertion-ordered, a later entry for   *)
(* the same key overwrites the condition)                                                     *)
IdxOfVal(d, v) == CHOOSE i \in DOMAIN d : d[i].v = v
HasVal(d, v) == \E i \in DOMAIN d : d[i].v = v
RECURSIVE DictInit(_, _, _)
DictInit(X, i, d) ==
  IF i > Len(X) THEN d
  ELSE DictInit(X, i + 1, IF HasVal(d, X[i].v) THEN [d EXCEPT ![IdxOfVal(d, X[i].v)].c = X[i].c]
                                               ELSE Append(d, X[i]))
RECURSIVE DictMerge(_, _, _)
DictMerge(Y, i, d) ==
  IF i > Len(Y) THEN d
  ELSE DictMerge(Y, i + 1,
         IF HasVal(d, Y[i].v)
           THEN LET j == IdxOfVal(d, Y[i].v) IN [d EXCEPT ![j].c = MkOr(<<d[j].c, Y[i].c>>)]
           ELSE Append(d, Y[i]))

(* X.merge_into(Y)  (X = self, Y = other) *)
MergeInto(X, Y) ==
  LET same == {n \in DOMAIN X.loc \cap DOMAIN Y.loc : X.loc[n] = Y.loc[n]}
      fromX(n) == IF n \in same THEN X.loc[n]
                  ELSE IF n \in X.lwbc THEN VarWith(X.loc[n], X.cond) ELSE X.loc[n]
      fromY(n) == IF n \in Y.lwbc THEN VarWith(Y.loc[n], Y.cond) ELSE Y.loc[n]
      both(n) == [b |-> DictMerge(fromY(n).b, 1, DictInit(fromX(n).b, 1, <<>>)), name |-> ""]
  IN [loc |-> [n \in DOMAIN X.loc \cup DOMAIN Y.loc |->
                 IF n \in same THEN X.loc[n]
                 ELSE IF n \notin DOMAIN Y.loc THEN fromX(n)
                 ELSE IF n \notin DOMAIN X.loc THEN fromY(n)
                 ELSE both(n)],
      cond |-> MkOr(<<X.cond, Y.cond>>),
      lwbc |-> same]

-----------------------------------------------------------------------------
(* Meaning of a block state, and the laws of C18 as operators over arbitrary states (used on  *)
(* the model state here and on the projected REAL states in TraceC18)                         *)
Vals(S, n, s) ==
  IF ~Has(S, n) THEN {}
  ELSE LET var == S.loc[n] IN
       {var.b[i].v : i \in {j \in DOMAIN var.b :
                              Eval(var.b[j].c, s) /\ (n \in S.lwbc => Eval(S.cond, s))}}

AllNames(S, T) == DOMAIN S.loc \cup DOMAIN T.loc

MergeLaw(X, Y, M) ==
  \A n \in AllNames(X, Y) \cup DOMAIN M.loc : \A s \in Valuations :
     Vals(M, n, s) = Vals(X, n, s) \cup Vals(Y, n, s)

WithLaw(S, c, R) ==
  \A n \in DOMAIN S.loc \cup DOMAIN R.loc : \A s \in Valuations :
     Vals(R, n, s) = IF Eval(c, s) THEN Vals(S, n, s) ELSE {}

VarWithLaw(var, c, res) ==
  /\ Len(res.b) = Len(var.b)
  /\ \A i \in DOMAIN var.b :
       /\ res.b[i].v = var.b[i].v
       /\ \A s \in Valuations : Eval(res.b[i].c, s) = (Eval(var.b[i].c, s) /\ Eval(c, s))

(* the block conditions compose the same way (needed for what is stored afterwards) *)
MergeCondLaw(X, Y, M) == Truth(M.cond) = Truth(X.cond) \cup Truth(Y.cond)
WithCondLaw(S, c, R) == Truth(R.cond) = Truth(S.cond) \cap Truth(c)

(* auxiliary invariant of states built through the operations: a local that does not carry   *)
(* the block condition implicitly has bindings whose conditions imply it                      *)
ExplicitImpliesBlock(S) ==
  /\ S.lwbc \subseteq DOMAIN S.loc
  /\ \A n \in DOMAIN S.loc \ S.lwbc : \A i \in DOMAIN S.loc[n].b :
       Truth(S.loc[n].b[i].c) \subseteq Truth(S.cond)

DistinctValues(S) ==
  \A n \in DOMAIN S.loc : \A i, j \in DOMAIN S.loc[n].b :
     i # j => S.loc[n].b[i].v # S.loc[n].b[j].v

-----------------------------------------------------------------------------
VARIABLES cop, cargs,       \* C machine: one application of Not/And/Or (or "const" / "pick")
          A, B, hist        \* S machine: the two registers and the operations so far
vars == <<cop, cargs, A, B, hist>>

-----------------------------------------------------------------------------
(* C machine *)
CPoolTop == CPool(Atoms, PoolDepth, MaxCArgs)
CPoolSeq == SetToSeq(CPoolTop)
NCPool == Len(CPoolSeq)
CIdx(t) == CHOOSE i \in 1 .. NCPool : CPoolSeq[i] = t

ASSUME (Export = "cond") => PrintT(<<"POOL", ToJson(CPoolSeq)>>)

CArgs == [j \in DOMAIN cargs |-> CPoolSeq[cargs[j]]]
CRes == CASE cop \in {"const", "pick"} -> CPoolSeq[cargs[1]]
          [] OTHER -> MkC(cop, CArgs)

CInit == /\ A = Empty /\ B = Empty /\ hist = <<>>
         /\ \/ cop = "const" /\ \E i \in 1 .. NCPool : cargs = <<i>> /\ CPoolSeq[i] \in CPool(Atoms, 0, 0)
            \/ cop \in {"and", "or"} /\ cargs = <<>>

CPick == /\ cop # "pick"
         /\ CRes \in CPoolTop
         /\ cop' = "pick" /\ cargs' = <<CIdx(CRes)>>
         /\ UNCHANGED <<A, B, hist>>

CApply == /\ cop = "pick"
          /\ \/ cop' = "not" /\ cargs' = cargs
             \/ \E o \in {"and", "or"}, q \in SeqsUpTo(1 .. NCPool, MaxCArgs - 1) :
                  cop' = o /\ cargs' = cargs \o q
          /\ UNCHANGED <<A, B, hist>>

CNext == CPick \/ CApply

CInvMeaning == cop \in {"not", "and", "or"} => ConnMeaning(cop, CRes, CArgs)
(* what the constructors promise structurally: no double negation; no TRUE/FALSE, no term     *)
(* together with its negation, directly below an and/or; at least two children               *)
RECURSIVE CNF(_)
CNF(c) == /\ (c.k = "not" => Child(c).k # "not")
          /\ (c.k \in {"and", "or"} =>
                /\ Cardinality(c.cs) >= 2
                /\ \A x \in c.cs : x.k \notin {"true", "false"} /\ MkNot(x) \notin c.cs)
          /\ \A x \in c.cs : CNF(x)
CInvNF == CNF(CRes)
CExportInv == (Export = "cond" /\ cop \notin {"pick", "const"}) =>
                PrintT(<<"CASE", ToJson([op |-> cop, args |-> cargs])>>)

-----------------------------------------------------------------------------
(* S machine *)
CondMenu == CPool(WAtoms, CondDepth, 2)
LitConds == CPool(WAtoms, LitDepth, 2) \ {CF}
(* literal variables: one or two bindings (distinct values unless DupValues) *)
VarMenu ==
  {[b |-> <<Bnd(v, c)>>, name |-> ""] : v \in Values, c \in LitConds \ {CT}}
  \cup {[b |-> <<Bnd(v, c), Bnd(w, d)>>, name |-> ""] :
          v \in Values, w \in Values, c \in LitConds, d \in LitConds}

CondSeq == SetToSeq(CondMenu)      \* operations name their condition / literal by index
VarSeq == SetToSeq(VarMenu)
ASSUME (Export \in {"trans", "hist"}) => PrintT(<<"MENU", ToJson([conds |-> CondSeq, vars |-> VarSeq])>>)

Reg(r) == IF r = "A" THEN A ELSE B
(* one record shape for all operations: c = index into CondSeq, lit = index into VarSeq (0 = none) *)
Op(o, r, s, n, m, v, c, lit) ==
  [op |-> o, r |-> r, s |-> s, n |-> n, m |-> m, v |-> v, c |-> c, lit |-> lit]

SetReg(r, S, o) ==
  /\ A' = IF r = "A" THEN S ELSE A
  /\ B' = IF r = "B" THEN S ELSE B
  /\ hist' = Append(hist, o)
  /\ UNCHANGED <<cop, cargs>>

Regs == {"A", "B"}
Other(s) == IF s = "A" THEN "B" ELSE "A"

(* r := BlockState({}, c)  /  BlockState({n: Variable.from_value(v)}, c) *)
New0(r, ci) == SetReg(r, Construct(NoLocals, CondSeq[ci]), Op("new0", r, "", "", "", "", ci, 0))
New1(r, n, v, ci) ==
  SetReg(r, Construct(n :> FromValue(v), CondSeq[ci]), Op("new1", r, "", n, "", v, ci, 0))
(* r.store_local(n, Variable.from_value(v)) *)
StoreValue(r, n, v) ==
  SetReg(r, StoreLocal(Reg(r), n, FromValue(v)), Op("storeval", r, "", n, "", v, 0, 0))
(* r.store_local(n, s.load_local(m)) *)
StoreLoad(r, n, s, m) ==
  /\ Has(Reg(s), m)
  /\ SetReg(r, StoreLocal(Reg(r), n, LoadLocal(Reg(s), m)), Op("storeload", r, s, n, m, "", 0, 0))
(* r.store_local(n, literal variable) *)
StoreLit(r, n, li) ==
  LET lit == VarSeq[li] IN
  /\ (DupValues \/ \A i, j \in DOMAIN lit.b : i # j => lit.b[i].v # lit.b[j].v)
  /\ SetReg(r, StoreLocal(Reg(r), n, lit), Op("storelit", r, "", n, "", "", 0, li))
(* r := s.with_condition(c) *)
With(r, s, ci) == SetReg(r, WithCondition(Reg(s), CondSeq[ci]), Op("with", r, s, "", "", "", ci, 0))
(* r := s.merge_into(the other register) *)
Merge(r, s) == SetReg(r, MergeInto(Reg(s), Reg(Other(s))), Op("merge", r, s, "", "", "", 0, 0))
(* r := s.merge_into(None) *)
Copy(r, s) == r # s /\ SetReg(r, Reg(s), Op("copy", r, s, "", "", "", 0, 0))

SInit == A = Empty /\ B = Empty /\ hist = <<>> /\ cop = "const" /\ cargs = <<>>

(* last step of an exported random history (tlc -simulate): a single successor, so that the  *)
(* export invariant prints the history exactly once                                          *)
End == /\ hist' = Append(hist, Op("end", "", "", "", "", "", 0, 0))
       /\ UNCHANGED <<A, B, cop, cargs>>

SNext ==
  /\ Len(hist) < MaxSteps
  /\ IF Export = "hist" /\ Len(hist) = MaxSteps - 1 THEN End ELSE
     \/ "new0" \in Ops /\ \E r \in Regs, ci \in DOMAIN CondSeq : CondSeq[ci] # CT /\ New0(r, ci)
     \/ "new1" \in Ops /\ \E r \in Regs, n \in Names, v \in Values, ci \in DOMAIN CondSeq : New1(r, n, v, ci)
     \/ "storeval" \in Ops /\ \E r \in Regs, n \in Names, v \in Values : StoreValue(r, n, v)
     \/ "storeload" \in Ops /\ \E r \in Regs, n \in Names, s \in Regs, m \in Names : StoreLoad(r, n, s, m)
     \/ "storelit" \in Ops /\ \E r \in Regs, n \in Names, li \in DOMAIN VarSeq : StoreLit(r, n, li)
     \/ "with" \in Ops /\ \E r \in Regs, s \in Regs, ci \in DOMAIN CondSeq : With(r, s, ci)
     \/ "merge" \in Ops /\ \E r \in Regs, s \in Regs : Merge(r, s)
     \/ "copy" \in Ops /\ \E r \in Regs, s \in Regs : Copy(r, s)

SView == <<A, B>>                  \* export runs (one worker, strict breadth-first search)
SViewN == <<A, B, Len(hist)>>      \* model-checking runs

SInvAux == ExplicitImpliesBlock(A) /\ ExplicitImpliesBlock(B)
SInvDistinct == DupValues \/ (DistinctValues(A) /\ DistinctValues(B))
SInvMerge ==
  /\ MergeLaw(A, B, MergeInto(A, B)) /\ MergeCondLaw(A, B, MergeInto(A, B))
  /\ MergeLaw(B, A, MergeInto(B, A)) /\ MergeCondLaw(B, A, MergeInto(B, A))
SInvWith ==
  \A c \in CondMenu : \A S \in {A, B} :
     LET R == WithCondition(S, c) IN WithLaw(S, c, R) /\ WithCondLaw(S, c, R)
SInvVarWith ==
  \A c \in CondMenu : \A S \in {A, B} : \A n \in DOMAIN S.loc :
     VarWithLaw(S.loc[n], c, VarWith(S.loc[n], c))
(* merging is commutative and idempotent in meaning *)
SInvMergeSym ==
  LET M1 == MergeInto(A, B)
      M2 == MergeInto(B, A) IN
  /\ \A n \in AllNames(A, B) : \A s \in Valuations : Vals(M1, n, s) = Vals(M2, n, s)
  /\ \A n \in DOMAIN A.loc : \A s \in Valuations : Vals(MergeInto(A, A), n, s) = Vals(A, n, s)

SExportHist == (Export = "hist" /\ Len(hist) = MaxSteps) => PrintT(<<"CASE", ToJson([h |-> hist])>>)
SExportTrans == (Export = "trans") => PrintT(<<"CASE", ToJson([h |-> hist'])>>)
=============================================================================

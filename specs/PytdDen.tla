------------------------------ MODULE PytdDen ------------------------------
(* The pytd type language as terms, a finite universe of run-time value terms, and the        *)
(* meaning of a type as the set of values it admits (property C11: "every value admitted by   *)
(* a constant, parameter or return type before optimisation is admitted after it").           *)
(*                                                                                            *)
(* TYPE TERMS are uniform triples <<tag, name, args>> (args: sequence of type terms) so that  *)
(* TLC can keep heterogeneous terms in one set and read them from JSON arrays:                *)
(*   <<"any","",<<>>>>            pytd.AnythingType                                           *)
(*   <<"nothing","",<<>>>>        pytd.NothingType                                            *)
(*   <<"cls", qualified name, <<>>>>   pytd.ClassType (resolved class)                        *)
(*   <<"named", qualified name, <<>>>> pytd.NamedType (same meaning; the optimiser's          *)
(*                                 object -> Any and Any|None rules tell them apart)          *)
(*   <<"lit", "cls:repr", <<>>>>  pytd.Literal (a class atom below its value's class)         *)
(*   <<"tvar", name, <<>>>>       pytd.TypeParameter (read as Any: see Admits)                *)
(*   <<"union","",members>>       pytd.UnionType                                              *)
(*   <<"gen", base, params>>      pytd.GenericType (list[T], dict[K,V], tuple[T, ...],        *)
(*                                 Callable[..., R] = gen typing.Callable <<any, R>>)         *)
(*   <<"tuple", base, items>>     pytd.TupleType (fixed arity)                                *)
(*   <<"callable", base, <<a1..an, ret>>>>   pytd.CallableType                                *)
(*   <<"none","",<<>>>>           "no type here" (absent mutated_type)                        *)
(*   any other tag                an opaque form: admits exactly the values of the pseudo     *)
(*                                 class whose name is the term's name                        *)
(*                                                                                            *)
(* VALUE TERMS are triples <<class name, shape, parts>>, parts a sequence of sequences:       *)
(*   shape "inst"  an instance we know only the class of (for container classes: the empty   *)
(*                 container)                                                                *)
(*   shape "coll"  a container; parts[i] = the distinct element values seen for the i-th      *)
(*                 type parameter of its class (list/set: elements; dict: keys, values;       *)
(*                 type[C]: an instance of the class object's class)                          *)
(*   shape "seq"   a tuple; parts[1] = its items in order                                     *)
(*   shape "fn"    a callable of arity Len(parts)-1; parts[1] = <<a value it returns>>,       *)
(*                 parts[k+1] = the argument values it accepts at position k                  *)
(*                 (<<AllMark>> = anything)                                                   *)
(*                                                                                            *)
(* The class hierarchy is data: ctx.anc maps a class name to the set of its ancestors         *)
(* (including itself), computed here from the direct-bases table the code itself uses         *)
(* (visitors.ExtractSuperClassesByName on the unit and its dependencies).                     *)
EXTENDS Naturals, FiniteSets, Sequences, SequencesExt, TLC

Min2(a, b) == IF a <= b THEN a ELSE b

-----------------------------------------------------------------------------
(* Type terms *)
TAny == <<"any", "", <<>>>>
TNothing == <<"nothing", "", <<>>>>
TNone == <<"none", "", <<>>>>
TCls(n) == <<"cls", n, <<>>>>
TNamed(n) == <<"named", n, <<>>>>
IsClassLeaf(t) == t[1] \in {"cls", "named"}
TUnion(ms) == <<"union", "", ms>>
TGen(b, ps) == <<"gen", b, ps>>
TTuple(items) == <<"tuple", "builtins.tuple", items>>
TCallable(argsret) == <<"callable", "typing.Callable", argsret>>

OBJECT == "builtins.object"
NONETYPE == "builtins.NoneType"
TUPLE == "builtins.tuple"
CALLABLE == "typing.Callable"
TupleNames == {"builtins.tuple", "typing.Tuple"}
FUNCTION == "$function"
OtherN == "$other"

Tag(t) == t[1]
Name(t) == t[2]
Args(t) == t[3]
IsGenLike(t) == t[1] \in {"gen", "tuple", "callable"}

RECURSIVE NamesIn(_)
NamesIn(t) ==
  (IF t[1] \in {"cls", "named", "lit", "gen", "tuple", "callable"} THEN {t[2]} ELSE {})
  \cup UNION {NamesIn(t[3][k]) : k \in DOMAIN t[3]}

-----------------------------------------------------------------------------
(* Class hierarchy: B is the direct-bases table (function name -> sequence of names) *)
BasesOf(B, c) == IF c \in DOMAIN B THEN ToSet(B[c]) ELSE {}

RECURSIVE AncR(_, _, _)
AncR(B, todo, seen) ==
  IF todo = {} THEN seen
  ELSE LET c == CHOOSE x \in todo : TRUE IN
       AncR(B, (todo \cup BasesOf(B, c)) \ (seen \cup {c}), seen \cup {c})

Ancestors(B, c) == AncR(B, {c}, {})

(* ctx: the fixed context of one judgement *)
(*   bases  the direct-bases table                                                            *)
(*   anc    name -> ancestors (incl. itself) for every name of interest                       *)
(*   strict BOOLEAN: read Callable parameters contravariantly (FALSE: by arity only, which    *)
(*          is what a run-time callable value can witness)                                    *)
Ctx(B, names, strict) ==
  [bases |-> B,
   anc |-> [c \in names \cup {FUNCTION, OtherN} |->
              IF c = FUNCTION THEN {FUNCTION, CALLABLE, OBJECT} \cup Ancestors(B, CALLABLE)
              ELSE Ancestors(B, c) \cup {OBJECT}],
   strict |-> strict]

AncOf(ctx, c) == IF c \in DOMAIN ctx.anc THEN ctx.anc[c] ELSE {c, OBJECT}
IsSubc(ctx, c, d) == d = c \/ d = OBJECT \/ d \in AncOf(ctx, c)

-----------------------------------------------------------------------------
(* Values *)
Inst(c) == <<c, "inst", <<>>>>
Coll(c, parts) == <<c, "coll", parts>>
TupV(items) == <<TUPLE, "seq", <<items>>>>
AllMark == <<"$all", "inst", <<>>>>
FnV(ret, accepts) == <<FUNCTION, "fn", <<<<ret>>>> \o accepts>>
Other == Inst(OtherN)

RECURSIVE Admits(_, _, _)
Admits(ctx, t, v) ==
  LET tag == t[1]
      nm == t[2]
      as == t[3] IN
  CASE tag \in {"any", "tvar"} -> TRUE
    [] tag \in {"nothing", "none"} -> FALSE
    [] tag \in {"cls", "named", "lit"} -> IsSubc(ctx, v[1], nm)
    [] tag = "union" -> \E k \in DOMAIN as : Admits(ctx, as[k], v)
    [] tag = "gen" ->
         /\ IsSubc(ctx, v[1], nm)
         /\ (CASE v[2] = "inst" -> TRUE
              [] v[2] = "coll" ->
                   \A p \in 1 .. Min2(Len(as), Len(v[3])) :
                      \A k \in DOMAIN v[3][p] : Admits(ctx, as[p], v[3][p][k])
              [] v[2] = "seq" ->
                   Len(as) >= 1 => \A k \in DOMAIN v[3][1] : Admits(ctx, as[1], v[3][1][k])
              [] v[2] = "fn" ->
                   (* Callable[..., R] is GenericType(Callable, (Any, R)) *)
                   Len(as) = 2 => Admits(ctx, as[2], v[3][1][1])
              [] OTHER -> TRUE)
    [] tag = "tuple" ->
         /\ v[2] = "seq" /\ IsSubc(ctx, v[1], nm)
         /\ Len(v[3][1]) = Len(as)
         /\ \A k \in DOMAIN as : Admits(ctx, as[k], v[3][1][k])
    [] tag = "callable" ->
         /\ v[2] = "fn" /\ Len(as) >= 1
         /\ Len(v[3]) = Len(as)                 \* arity (1 + #params = #args + ret)
         /\ Admits(ctx, as[Len(as)], v[3][1][1])
         /\ ctx.strict =>
              \A p \in 1 .. Len(as) - 1 :
                 \/ AllMark \in ToSet(v[3][p + 1])
                 \/ \A c \in DOMAIN ctx.anc : Admits(ctx, as[p], Inst(c)) => Inst(c) \in ToSet(v[3][p + 1])
    [] OTHER -> v[1] = nm

Den(ctx, U, t) == {v \in U : Admits(ctx, t, v)}
Wider(ctx, U, a, b) == \A v \in U : Admits(ctx, a, v) => Admits(ctx, b, v)     \* Den(a) \subseteq Den(b)
SameDen(ctx, U, a, b) == \A v \in U : Admits(ctx, a, v) <=> Admits(ctx, b, v)

-----------------------------------------------------------------------------
(* The finite universe of one judgement: type-directed witnesses.  For every type of the      *)
(* judgement W(t) holds values probing each corner of t (an instance per class atom; for a     *)
(* container every element summary of <= 2 distinct witnesses of the parameter, always also    *)
(* with a foreign element; tuples of the stated and of neighbouring arities; callables of the  *)
(* stated arity returning witnesses of the result), so that a value lost or gained by a        *)
(* rewrite of t is in W(before) \cup W(after).  Any universe of well-formed values gives a     *)
(* sound judgement (a counterexample is a real value); the choice only decides sensitivity.    *)
ElemSets2(S) == {<<>>} \cup {<<x>> : x \in S} \cup {<<p[1], p[2]>> : p \in {q \in S \X S : q[1] # q[2]}}
ElemSets1(S) == {<<>>} \cup {<<x>> : x \in S}

RECURSIVE SeqsOver(_, _)
SeqsOver(S, n) == IF n = 0 THEN {<<>>} ELSE {Append(s, x) : s \in SeqsOver(S, n - 1), x \in S}

RECURSIVE ProdSeq(_)     \* all sequences choosing s[k] \in sets[k]
ProdSeq(sets) ==
  IF sets = <<>> THEN {<<>>}
  ELSE {<<x>> \o r : x \in Head(sets), r \in ProdSeq(Tail(sets))}

RECURSIVE W(_, _)
W(ctx, t) ==
  LET tag == t[1]
      nm == t[2]
      as == t[3]
      WE(k) == W(ctx, as[k]) \cup {Other} IN
  CASE tag \in {"any", "tvar"} -> {Other}
    [] tag \in {"nothing", "none"} -> {}
    [] tag \in {"cls", "named", "lit"} ->
         {Inst(nm)} \cup (IF nm = CALLABLE THEN {FnV(Other, <<>>), FnV(Other, <<<<AllMark>>>>)} ELSE {})
                    \cup (IF nm \in TupleNames THEN {TupV(<<>>), TupV(<<Other>>)} ELSE {})
    [] tag = "union" -> UNION {W(ctx, as[k]) : k \in DOMAIN as}
    [] tag = "gen" ->
         IF nm \in TupleNames
           THEN IF as = <<>> THEN {TupV(<<>>)}
                ELSE {TupV(s) : s \in UNION {SeqsOver(WE(1), n) : n \in 0 .. 2}}
         ELSE IF nm = CALLABLE
           THEN IF Len(as) # 2 THEN {FnV(Other, <<>>)}
                ELSE {FnV(r, acc) : r \in WE(2), acc \in {<<>>, <<<<AllMark>>>>, <<<<AllMark>>, <<AllMark>>>>}}
         ELSE (CASE Len(as) = 0 -> {Inst(nm)}
                [] Len(as) = 1 -> {Coll(nm, <<es>>) : es \in ElemSets2(WE(1))}
                [] Len(as) = 2 -> {Coll(nm, <<ks, vs>>) :
                                     ks \in ElemSets2(WE(1)), vs \in ElemSets2(WE(2))} \
                                  {Coll(nm, <<ks, vs>>) :
                                     ks \in {x \in ElemSets2(WE(1)) : Len(x) = 2},
                                     vs \in {x \in ElemSets2(WE(2)) : Len(x) = 2}}
                [] OTHER -> {Coll(nm, ps) : ps \in ProdSeq([k \in DOMAIN as |-> ElemSets1(WE(k))])})
    [] tag = "tuple" ->
         {TupV(s) : s \in ProdSeq([k \in DOMAIN as |-> WE(k)])}
    [] tag = "callable" ->
         IF as = <<>> THEN {}
         ELSE LET n == Len(as) - 1
                  accs == IF n = 1
                            THEN {<<<<AllMark>>>>} \cup {<<<<x>>>> : x \in W(ctx, as[1])}
                            ELSE {[k \in 1 .. n |-> <<AllMark>>]} IN
              {FnV(r, acc) : r \in WE(Len(as)), acc \in accs}
    [] OTHER -> {Inst(nm)}

(* names: every class name mentioned by the judged types (instances of each are always in)   *)
UniverseOf(ctx, types, names) ==
  UNION {W(ctx, t) : t \in types} \cup {Inst(c) : c \in names} \cup {Other, Inst(OBJECT)}

=============================================================================

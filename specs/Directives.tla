------------------------------ MODULE Directives ------------------------------
(* The directive machinery of pytype (pytype/directors/directors.py, parser.py) as a state    *)
(* machine, property C03.                                                                     *)
(*                                                                                            *)
(* Director pipeline (Mode "files": TLC enumerates every file within the bounds; Mode         *)
(* "skeleton": the line structure comes from fixed source skeletons, TLC chooses the          *)
(* directive placements):                                                                     *)
(*   build : AddComment    -- a directive comment is written into the file (file order)       *)
(*   Parse                 -- parser.visit_src_tree: the work list of (directive, range) items*)
(*   Process               -- Director._process_type / _process_disable on the next item      *)
(*   Finish                -- late-directive warnings                                         *)
(* In the final state the line sets must mean what the directives say (DirInv...).            *)
(*                                                                                            *)
(* ErrorLog.error (after Finish, at most MaxErrs times): the VM raises an error u = [name,    *)
(* op, xl, ret] -- detected while the opcode on line op executes, to be reported on line xl   *)
(* (0: on the opcode's line):                                                                 *)
(*   ErrCreate(u)          -- Error.with_stack: the error object sits on line op              *)
(*   ErrLine               -- `if line: err.set_line(line)`                                   *)
(*   ErrFilterAdd          -- _add: the Director's filter decides on the CURRENT line         *)
(* LogInv: the error ends up on the asked line and is kept iff that line carries no           *)
(* directive for it, wherever it was detected (relocated errors: incomplete-match).           *)
(*                                                                                            *)
(* _LineSet machine (Mode "lineset"): the operations set_line / start_range on one object,    *)
(* every sequence up to LsMaxOps over lines 0..LsMaxLine.                                     *)
EXTENDS DirectivesOps, Json, IOUtils

CONSTANTS Mode,          \* "files" | "skeleton" | "lineset" | "trace"
          MaxLines, MaxStmts, MaxCalls, MaxFuncs, MaxRets, MaxPlain,
          MaxComments, MaxSameLine,
          WithStar,      \* BOOLEAN: directives may name "*"
          WithGlobal,    \* BOOLEAN: one name may be disabled on the command line
          TrailEnable,   \* BOOLEAN: trailing `enable` directives occur
          DefsAt,        \* candidate lines for the first definition when there is no function
          LsMaxLine, LsMaxOps,
          CheckFrame,    \* BOOLEAN: check the frame conditions in final states
          NameSets,      \* "single": a directive names one error class; "all": every class in
                         \* Names at once (`disable=a,b,c,...`: the whole alphabet per placement)
          MaxErrs,       \* number of errors the VM raises after the Director is built
          Export         \* "none" | "files" | "obs" | "lshist" | "lstrans"

VARIABLES file,    \* the file record (see DirectivesOps)
          phase,   \* "build" | "run" | "done" | "ls"
          items,   \* the Director's work list
          pc,      \* next item
          st,      \* [ls, br, raised]
          late,    \* late-directive warnings
          one,     \* a single _LineSet (Mode "lineset")
          hist,    \* operations applied to `one`: [op, l, m, raised]
          elog     \* ErrorLog.error: [n = errors raised so far, u = the request, cur = the error
                   \* object, res = outcome of the last completed call [line, rep]]

vars == <<file, phase, items, pc, st, late, one, hist, elog>>

NoRaise == [name |-> "", op |-> 0, xl |-> 0, ret |-> FALSE]
NoErr == [name |-> "", line |-> 0, ret |-> FALSE]
NoRes == [line |-> 0, rep |-> FALSE]
ELog0 == [n |-> 0, u |-> NoRaise, cur |-> NoErr, res |-> NoRes]

NoFile == [id |-> 0, n |-> 0, stmts |-> {}, calls |-> {}, funcs |-> {}, rets |-> {}, defs |-> 0,
           plain |-> {}, glob |-> {}, cs |-> <<>>, canT |-> {}, canS |-> {}]

-----------------------------------------------------------------------------
(* Every line structure within the bounds *)

Parts(n) == {B \in SUBSET (1 .. n - 1) : Cardinality(B) + 1 <= MaxStmts}
StmtsOf(n, B) ==
  LET E == B \cup {n} IN
  {<<(IF {x \in E : x < e} = {} THEN 1 ELSE MaxS({x \in E : x < e}) + 1), e>> : e \in E}
SubRanges(P) ==
  {x \in (1 .. MaxLines) \X (1 .. MaxLines) : x[1] < x[2] /\ \E r \in P : r[1] <= x[1] /\ x[2] <= r[2]}
UpTo2(S, mx) ==
  {{}} \cup (IF mx >= 1 THEN {{a} : a \in S} ELSE {}) \cup (IF mx >= 2 THEN {{a, b} : a, b \in S} ELSE {})
FuncRanges(P) ==
  {x \in (1 .. MaxLines) \X (1 .. MaxLines) :
     x[1] <= x[2] /\ (\E r \in P : r[1] = x[1]) /\ (\E r \in P : r[2] = x[2])}
FuncsOK(Fs) ==
  \A f, g \in Fs : f = g \/ (f[1] # g[1] /\ (f[2] < g[1] \/ g[2] < f[1]           \* disjoint
                                          \/ (f[1] < g[1] /\ g[2] <= f[2])        \* g inside f
                                          \/ (g[1] < f[1] /\ f[2] <= g[2])))
RetLines(P, Fs) ==
  {r[1] : r \in {x \in P : \E f \in Fs : f[1] < x[1] /\ x[2] <= f[2]}}
Endpoints(S) == {x[1] : x \in S} \cup {x[2] : x \in S}
CanStand(n, P, C, Fs, R, d, pl) ==
  {l \in 1 .. n :
     /\ l \notin pl /\ l \notin R /\ l # d
     /\ l \notin Endpoints(C) /\ l \notin Endpoints(Fs)
     /\ \E r \in P : InR(l, r) /\ (r[1] = r[2] \/ (r[1] < l /\ l < r[2]))}

NP == UNION {{<<n, StmtsOf(n, B)>> : B \in Parts(n)} : n \in 1 .. MaxLines}
Structures ==
  UNION {UNION {UNION {UNION {
    {[id |-> 0, n |-> np[1], stmts |-> np[2], calls |-> C, funcs |-> Fs, rets |-> R, defs |-> d,
      plain |-> pl, glob |-> g, cs |-> <<>>, canT |-> (1 .. np[1]) \ pl,
      canS |-> CanStand(np[1], np[2], C, Fs, R, d, pl)] :
        d \in (IF Fs # {} THEN {MinS({f[1] : f \in Fs})} ELSE {0} \cup (DefsAt \cap (1 .. np[1]))),
        pl \in UpTo2(1 .. np[1], MaxPlain),
        g \in {{}} \cup (IF WithGlobal THEN {{x} : x \in Names} ELSE {})}
    : R \in UpTo2(RetLines(np[2], Fs), MaxRets)}
    : Fs \in {x \in UpTo2(FuncRanges(np[2]), MaxFuncs) : FuncsOK(x)}}
    : C \in UpTo2(SubRanges(np[2]), MaxCalls)}
    : np \in NP}


(* skeleton mode: structures come from a JSON file *)
FileOfJson(j) ==
  [id |-> j.id, n |-> j.n, stmts |-> ToSet(j.stmts), calls |-> ToSet(j.calls), funcs |-> ToSet(j.funcs),
   rets |-> ToSet(j.rets), defs |-> j.defs, plain |-> ToSet(j.plain), glob |-> ToSet(j.glob),
   cs |-> [x \in DOMAIN j.cs |-> [line |-> j.cs[x].line, trail |-> j.cs[x].trail,
                                  cmd |-> j.cs[x].cmd, names |-> ToSet(j.cs[x].names)]],
   canT |-> ToSet(j.canT), canS |-> ToSet(j.canS)]
Skels == IF Mode = "skeleton" THEN JsonDeserialize(IOEnv.SKEL_FILE) ELSE <<>>

-----------------------------------------------------------------------------
(* Director pipeline *)

NameChoices == IF NameSets = "all" THEN {Names}
               ELSE {{x} : x \in Names \cup (IF WithStar THEN {Star} ELSE {})}
Atoms(F) ==
  {[line |-> l, trail |-> t, cmd |-> "disable", names |-> N] :
      l \in 1 .. F.n, t \in BOOLEAN, N \in NameChoices}
  \cup {[line |-> l, trail |-> t, cmd |-> "enable", names |-> N] :
      l \in 1 .. F.n, t \in (IF TrailEnable THEN BOOLEAN ELSE {FALSE}), N \in NameChoices}
  \cup {[line |-> l, trail |-> t, cmd |-> Ign, names |-> {}] : l \in 1 .. F.n, t \in BOOLEAN}

OnLine(F, l) == {j \in DOMAIN F.cs : F.cs[j].line = l}
CanAdd(F, c) ==
  /\ Len(F.cs) < MaxComments
  /\ F.cs # <<>> => F.cs[Len(F.cs)].line <= c.line
  /\ Cardinality(OnLine(F, c.line)) < MaxSameLine
  /\ \A j \in OnLine(F, c.line) : F.cs[j].trail = c.trail /\ F.cs[j] # c
  /\ IF c.trail THEN c.line \in F.canT ELSE c.line \in F.canS

AddComment(c) ==
  /\ phase = "build" /\ CanAdd(file, c)
  /\ file' = [file EXCEPT !.cs = Append(@, c)]
  /\ UNCHANGED <<phase, items, pc, st, late, one, hist, elog>>

Parse ==
  /\ phase = "build"
  /\ items' = WorkItems(file) /\ st' = St0(file) /\ pc' = 1 /\ phase' = "run"
  /\ UNCHANGED <<file, late, one, hist, elog>>

Process ==
  /\ phase = "run" /\ pc <= Len(items)
  /\ st' = ProcItem(st, file, items[pc]) /\ pc' = pc + 1
  /\ UNCHANGED <<file, phase, items, late, one, hist, elog>>

Finish ==
  /\ phase = "run" /\ pc > Len(items)
  /\ late' = Late(file, st) /\ phase' = "done"
  /\ UNCHANGED <<file, items, pc, st, one, hist, elog>>

-----------------------------------------------------------------------------
(* ErrorLog.error as the VM calls it, with the Director's filter_error installed *)

Raises(F) ==
  {[name |-> nm, op |-> o, xl |-> x, ret |-> r] :
     nm \in Names \cup {"other-error"}, o \in 1 .. F.n, x \in 0 .. F.n, r \in BOOLEAN}

ErrCreate(u) ==
  /\ phase = "done" /\ elog.n < MaxErrs
  /\ elog' = [n |-> elog.n + 1, u |-> u, cur |-> ErrNew(u), res |-> NoRes]
  /\ phase' = "err-new"
  /\ UNCHANGED <<file, items, pc, st, late, one, hist>>

ErrLine ==
  /\ phase = "err-new"
  /\ elog' = [elog EXCEPT !.cur = ErrSetLine(@, elog.u.xl)]
  /\ phase' = "err-lined"
  /\ UNCHANGED <<file, items, pc, st, late, one, hist>>

ErrFilterAdd ==
  /\ phase = "err-lined"
  /\ elog' = [elog EXCEPT !.res = ErrAdd(file, [ls |-> st.ls, br |-> st.br], elog.cur)]
  /\ phase' = "done"
  /\ UNCHANGED <<file, items, pc, st, late, one, hist>>

-----------------------------------------------------------------------------
(* _LineSet machine *)

LsOp(op, l, m) ==
  /\ phase = "ls" /\ Len(hist) < LsMaxOps
  /\ LET r == op = "start_range" /\ LsRaises(one, l) IN
       /\ one' = IF r THEN one
                 ELSE IF op = "set_line" THEN LsSetLine(one, l, m) ELSE LsStartRange(one, l, m)
       /\ hist' = Append(hist, [op |-> op, l |-> l, m |-> m, raised |-> r])
  /\ UNCHANGED <<file, phase, items, pc, st, late, elog>>

-----------------------------------------------------------------------------
Init ==
  /\ items = <<>> /\ pc = 0 /\ late = {} /\ one = LsEmpty /\ hist = <<>> /\ elog = ELog0
  /\ CASE Mode = "files" -> file \in Structures /\ phase = "build"
       [] Mode = "skeleton" -> file \in {FileOfJson(Skels[x]) : x \in DOMAIN Skels} /\ phase = "build"
       [] Mode = "lineset" -> file = NoFile /\ phase = "ls"
       [] OTHER -> file = NoFile /\ phase = "idle"
  /\ st = St0(NoFile)

Next ==
  \/ \E c \in Atoms(file) : AddComment(c)
  \/ Parse \/ Process \/ Finish
  \/ (phase = "done" /\ elog.n < MaxErrs /\ \E u \in Raises(file) : ErrCreate(u))
  \/ ErrLine \/ ErrFilterAdd
  \/ \E op \in {"set_line", "start_range"}, l \in 0 .. LsMaxLine, m \in BOOLEAN : LsOp(op, l, m)

Spec == Init /\ [][Next]_vars

-----------------------------------------------------------------------------
(* Invariants of the Director pipeline (final states) *)

IsDone == phase = "done" /\ elog.n = 0
AllLines(F) == QueryLines(F)

(* the line sets mean what the documented reading says *)
DirInvMeaning ==
  IsDone => LET W == items IN
          \A k \in Keys, l \in AllLines(file) : LsContains(st.ls[k], l) = InDocW(file, W, k, l)

(* the action-by-action run equals the one-shot fold; nothing raises; transitions stay sorted *)
DirInvRun ==
  /\ IsDone => LET r == RunDirector(file) IN
             r.ls = st.ls /\ r.br = st.br /\ r.late = late /\ ~st.raised
  /\ \A k \in Keys : LsSorted(st.ls[k])
  /\ phase = "run" => items = WorkItems(file)

(* filter_error agrees with the declarative verdict for every synthetic error *)
QNames == Names \cup {"other-error"}
Queries(F) == {[name |-> nm, line |-> l, ret |-> r] :
                 nm \in QNames, l \in QueryLines(F), r \in BOOLEAN}
DirInvFilter ==
  IsDone => \A q \in Queries(file) :
            FilterOp(file, [ls |-> st.ls, br |-> st.br], q) = DeclFilter(file, items, q, TRUE)

(* where the documented reading differs from the strict one, a trailing directive on another  *)
(* line of the same statement is the cause, and the line is the first line of that statement  *)
(* or of a call range around the directive                                                    *)
DirInvException ==
  IsDone => \A k \in Keys, l \in AllLines(file) :
            InDocW(file, items, k, l) # InStrict(file, k, l) =>
              \E x \in DOMAIN items :
                 LET c == file.cs[items[x].ci] IN
                 /\ c.trail /\ c.line # l /\ items[x].s = l /\ l < c.line
                 /\ k \in KeysOf(c, items[x].call) /\ Adjusted(k)
                 /\ InR(c.line, CHOOSE r \in file.stmts : InR(l, r))

(* stand-alone directives alone: exactly the range semantics *)
DirInvRangesOnly ==
  (IsDone /\ \A j \in DOMAIN file.cs : ~file.cs[j].trail) =>
     \A k \in Keys, l \in AllLines(file) : LsContains(st.ls[k], l) = DeclRange(file, k, l)

(* frame conditions for one more directive *)
TrailCands(F) ==
  {c \in Atoms(F) : c.trail /\ c.cmd # "enable" /\ c.line \in F.canT
                    /\ \A j \in OnLine(F, c.line) : F.cs[j].trail}
NoTrailEnable(F) == \A j \in DOMAIN F.cs : ~(F.cs[j].trail /\ F.cs[j].cmd = "enable")
FreeStand(F) == {l \in F.canS : OnLine(F, l) = {}}
DirInvFrame ==
  (IsDone /\ CheckFrame) =>
     /\ \A c \in TrailCands(file) :
          /\ FrameChanges(file, c)
          /\ NoTrailEnable(file) => FrameWorks(file, c)
     /\ \A k \in Names, a \in FreeStand(file), b \in FreeStand(file) \cup {0} :
          (/\ b = 0 \/ a < b
           /\ ~DeclRange(file, k, a)
           /\ ~\E j \in DOMAIN file.cs : /\ ~file.cs[j].trail /\ Mentions(file.cs[j], k)
                                          /\ a < file.cs[j].line /\ (b = 0 \/ file.cs[j].line < b))
          => FrameStandalone(file, k, a, b)

(* ErrorLog.error: the three steps compose to the one-shot operator; the error ends up on the *)
(* line it was asked to be reported at (an implicit-return error: on the line the Director    *)
(* moves it to) and it is kept iff THAT line carries no directive for it -- in particular a    *)
(* relocated error is never judged on the line of the opcode that detected it                 *)
LogInv ==
  (phase = "done" /\ elog.n > 0) =>
     LET u == elog.u
         v == elog.res IN
     /\ v = LogOp(file, [ls |-> st.ls, br |-> st.br], u)
     /\ v = DeclLog(file, items, u, TRUE)
     /\ ~(u.name = BRT /\ u.ret) => v.line = AskedLine(u)
     /\ v.rep = ~Supp(file, items, u.name, QLine(v.line), TRUE)

(* line sets of LineSet mode *)
LsInv ==
  phase = "ls" =>
    /\ LsSorted(one)
    /\ LET h == SelectSeq(hist, LAMBDA o : ~o.raised) IN
       HistMonotone(h) => \A l \in 0 .. LsMaxLine + 1 : LsContains(one, l) = HistMember(h, l)

TypeOK ==
  /\ phase \in {"build", "run", "done", "ls", "idle", "err-new", "err-lined"}
  /\ \A k \in Keys : st.ls[k].on \cap st.ls[k].off = {}

-----------------------------------------------------------------------------
(* Exports *)

FileJson(F) == F      \* sets print as arrays

(* observable exceptions: placements of one more trailing directive whose effect is not       *)
(* confined to its own line                                                                   *)
ObsOf(F) ==
  {c \in TrailCands(F) : ~FrameTrailingStrict(F, c)}

ExportInv ==
  CASE Export = "files" -> (IsDone => PrintT(<<"CASE", ToJson(FileJson(file))>>))
    [] Export = "obs" ->
         (IsDone => \A c \in ObsOf(file) :
                    PrintT(<<"CASE", ToJson([f |-> FileJson(file), c |-> c,
                                             ch |-> Changed(file, AddDirective(file, c))])>>))
    [] Export = "lshist" ->
         ((phase = "ls" /\ Len(hist) = LsMaxOps) => PrintT(<<"CASE", ToJson([h |-> hist])>>))
    [] OTHER -> TRUE

(* with VIEW LsView: every transition of the _LineSet state graph once *)
LsView == <<one, phase>>
ExportLsTrans ==
  (Export = "lstrans" /\ phase = "ls") =>
     PrintT(<<"CASE", ToJson([h |-> hist'])>>)
=============================================================================

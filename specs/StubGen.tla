------------------------------ MODULE StubGen ------------------------------
(* A generator of stubs in the dialect pytype emits, as a state machine that builds a tree of  *)
(* declarations by micro-steps.  A behaviour = one well-scoped stub; `tlc -simulate` draws     *)
(* random stubs, exhaustive search at tiny constants enumerates all of them.  The driver turns  *)
(* the exported term into real pytd nodes (harness/stubgen_terms.py), not into text.            *)
(*                                                                                            *)
(* State                                                                                      *)
(*   scopes   stack of open scopes; scopes[1] is the module, the others are classes under       *)
(*            construction: [n, bases, meta, slots, tps, body]; body = declarations so far      *)
(*   fn       the function under construction (n = "": none): finished signatures `sigs`, and   *)
(*            the parameters ps / star / kw of the signature being written while `open`         *)
(*   goal     the declaration part that is waiting for `need` type terms (what = "": none)      *)
(*   got      the type terms finished for the goal so far                                        *)
(*   frames   the type term under construction, outermost constructor first: each frame is      *)
(*            [tag, name, need, args]; a frame whose args are complete is folded into its parent *)
(*   steps    number of micro-steps so far; done: End was taken                                 *)
(*                                                                                            *)
(* Type terms are built top-down (choose the constructor, then fill its arguments left to       *)
(* right), so that every partial term can be completed within the depth bound: the generator    *)
(* has no dead ends and every behaviour reaches End.                                            *)
(*                                                                                            *)
(* Declarations (records, field k = kind)                                                      *)
(*   const n: t [= ...] | prop n: Annotated[t, 'property'] | alias n = t | import m as n         *)
(*   | fromimport n = m.x | tvar n [bound | constraints]                                         *)
(*   | func n kind flags sigs   (several sigs = @overload; params with kinds pos / reg / kw,     *)
(*     defaults, *args, **kwargs)                                                                *)
(*   | class n bases meta slots tps body  (Generic[tps], nested classes, methods, properties)    *)
(*                                                                                            *)
(* Dialect restrictions (what io.generate_pyi can produce): declaration names are unique per    *)
(* scope; an alias never targets a nested class;                                               *)
(* scope; union members are >= 2, pairwise different, never unions/Any/nothing; `nothing`       *)
(* appears only as the parameter of an empty container and as a return type; Literal only as a   *)
(* whole type or a union member; a positional parameter without default never follows one with   *)
(* default; type variables are declared at module level and used only in signatures (where the   *)
(* return type uses only variables of the parameters or of the enclosing generic class) and       *)
(* inside generic classes; __init__ returns None.                                                *)
(*                                                                                            *)
(* Special method names (fragments "dunder", "dunder2", "fptype"; C05 strengthening).  The       *)
(* stub reader (pytd/codegen/function.py merge_method_signatures), the printer                   *)
(* (printer.py VisitFunction / VisitParameter) and the inferencer decide the KIND of a function   *)
(* and the spelling of its first parameter partly by NAME.  BeginDunder draws the function name   *)
(* from the alphabet of such names, crossed with the kind (plain / @staticmethod /               *)
(* @classmethod), the flags (@abstractmethod, ...), the number of signatures (@overload) and the   *)
(* first parameter (absent / self / cls / other; unannotated or annotated with the enclosing       *)
(* class); WantDunderProp declares a property under such a name.  The name convention of the      *)
(* dialect is PINNED here (ImplicitStatic, ImplicitClass, Decorator, ReadKind): a func            *)
(* declaration made by BeginDunder carries rk = the kind its printed text denotes and ab = its    *)
(* first parameter's annotation is one the printer leaves out; the driver compares what the       *)
(* real reader returns with these (clause orig).                                                  *)
EXTENDS PytdTerms, Json

CONSTANTS MaxTop,      \* declarations at module level; the stub ends when the module is full
          MaxBody,     \* declarations in a class body
          MaxDepth,    \* nesting depth of type terms
          MaxParams,   \* parameters per signature (without self / cls)
          MaxSigs,     \* signatures per function (> 1: overloads)
          MaxNest,     \* class nesting depth (1: no nested classes)
          MaxBases,    \* explicit bases per class
          Builtins,    \* builtin class names usable as leaves, e.g. {"int", "str", "NoneType"}
          Frags,       \* enabled fragments, subset of AllFrags
          ExportMode   \* "final": print the stub at End; "states": print every quiescent stub

AllFrags == {"alias", "import", "tvar", "func", "class", "literal", "callable", "tuple", "union",
             "generic", "type", "nothing", "default", "posonly", "kwonly", "star", "flags",
             "prop", "slots", "meta", "extern", "value", "dunder", "dunder2", "fptype"}

VARIABLES scopes, fn, goal, got, frames, steps, done
vars == <<scopes, fn, goal, got, frames, steps, done>>

-----------------------------------------------------------------------------
(* name pools: the first unused name of the pool is taken (no symmetric duplicates) *)
ConstNames == <<"x", "y", "z", "w">>
AliasNames == <<"X", "Y">>
FuncNames  == <<"f", "g", "h">>
MethNames  == <<"m", "__init__", "k">>
ClassNames == <<"A", "B", "C">>
NestNames  == <<"N", "M">>
TVarNames  == <<"T", "S">>
PropNames  == <<"p", "q">>
ParamNames == <<"a", "b", "c", "d", "e">>
Imports    == <<[n |-> "os", m |-> "os"], [n |-> "cc", m |-> "collections"]>>
FromImports == <<[n |-> "Seq", m |-> "typing.Sequence"], [n |-> "OD", m |-> "collections.OrderedDict"]>>
LitVals    == {"int:0", "int:1", "str:a", "bool:True", "bool:False"}

(* fp: the first parameter of every signature of the function (<<>>: none); dn: made by BeginDunder *)
NoFn == [n |-> "", kind |-> "", flags |-> <<>>, sigs |-> <<>>, ps |-> <<>>, star |-> <<>>,
         kw |-> <<>>, open |-> FALSE, fp |-> <<>>, dn |-> FALSE]
(* nm: the name chosen for the declaration ("": the first free name of its pool) *)
NoGoal == [what |-> "", need |-> 0, v |-> FALSE, opt |-> FALSE, pk |-> "", tps |-> <<>>,
           slots |-> <<>>, meta |-> <<>>, nm |-> ""]
Module0 == [n |-> "", bases |-> <<>>, meta |-> <<>>, slots |-> <<>>, tps |-> <<>>, body |-> <<>>]

Top == scopes[Len(scopes)]
InModule == Len(scopes) = 1
Body == Top.body
NamesIn(body) == {body[i].n : i \in DOMAIN body}
FirstFree(pool, used) ==
  IF \E i \in DOMAIN pool : pool[i] \notin used
    THEN <<pool[CHOOSE i \in DOMAIN pool : pool[i] \notin used /\ \A j \in 1 .. i - 1 : pool[j] \in used]>>
    ELSE <<>>
HasRoom == Len(Body) < (IF InModule THEN MaxTop ELSE MaxBody)
FnOpen == fn.n # ""
Idle == goal.what = ""                       \* no type is being built
Quiescent == ~FnOpen /\ Idle /\ InModule
Free == ~done /\ Idle /\ ~FnOpen             \* a new declaration may start

Qual(outer, n) == IF outer = "" THEN n ELSE outer \o "." \o n
RECURSIVE PathUpTo(_)
PathUpTo(k) == IF k <= 1 THEN "" ELSE Qual(PathUpTo(k - 1), scopes[k].n)

(* classes that may be referenced: <<qualified name, number of type parameters, baseless>>;    *)
(* baseless: no base but object / Generic (such classes combine freely as bases)               *)
Baseless(bases) == \A k \in DOMAIN bases : Name(bases[k]) = "typing.Generic"
RECURSIVE ClassesOf(_, _)
ClassesOf(body, outer) ==
  UNION {IF body[i].k = "class"
           THEN {<<Qual(outer, body[i].n), Len(body[i].tps), Baseless(body[i].bases)>>}
                \cup ClassesOf(body[i].body, Qual(outer, body[i].n))
           ELSE {} : i \in DOMAIN body}
ClosedClasses == UNION {ClassesOf(scopes[k].body, PathUpTo(k)) : k \in DOMAIN scopes}
OpenClasses == {<<PathUpTo(k), Len(scopes[k].tps), FALSE>> : k \in 2 .. Len(scopes)}
LightNames == {c[1] : c \in {x \in ClosedClasses : x[3]}}
Heavy(tag, name) == ~(tag = "cls" /\ name \in LightNames)
RefClasses == ClosedClasses \cup OpenClasses
TopClassNames == {scopes[1].body[i].n : i \in {j \in DOMAIN scopes[1].body : scopes[1].body[j].k = "class"}}
NestedClassNames == {c[1] : c \in ClosedClasses} \ TopClassNames

DeclaredTVars == {scopes[1].body[i].n : i \in {j \in DOMAIN scopes[1].body : scopes[1].body[j].k = "tvar"}}
ClassTVars == UNION {SeqToSet(scopes[k].tps) : k \in 2 .. Len(scopes)}
ParamTVars == UNION ({TVarsOf(fn.ps[k].t) : k \in DOMAIN fn.ps}
                     \cup {TVarsOf(fn.star[k].t) : k \in DOMAIN fn.star}
                     \cup {TVarsOf(fn.kw[k].t) : k \in DOMAIN fn.kw})
UsableTVars ==
  CASE goal.what \in {"const", "prop"} -> ClassTVars
    [] goal.what \in {"param", "star", "kw"} -> DeclaredTVars
    [] goal.what = "ret" -> ParamTVars \cup ClassTVars
    [] goal.what = "class" -> SeqToSet(goal.tps)
    [] OTHER -> {}

-----------------------------------------------------------------------------
(* type building, top-down *)
Building == ~done /\ ~Idle /\ Len(got) < goal.need
AtRoot == frames = <<>>
TopFrame == frames[Len(frames)]
Step == steps' = steps + 1 /\ UNCHANGED done
Tuple0 == <<"tuple", "", <<>>>>

Leaves ==
  {Cls(b) : b \in Builtins} \cup {AnyT}
  \cup {Cls(c[1]) : c \in RefClasses}
  \cup {TVar(v) : v \in UsableTVars}
  \cup (IF "literal" \in Frags THEN {Lit(v) : v \in LitVals} ELSE {})
  \cup (IF "extern" \in Frags THEN {Cls("collections.OrderedDict"), Cls("typing.Hashable")} ELSE {})
  \cup (IF "tuple" \in Frags THEN {Tuple0} ELSE {})
  \cup (IF "nothing" \in Frags /\ "generic" \in Frags /\ Len(frames) < MaxDepth
          THEN {Gen("list", <<NothingT>>), Gen("dict", <<NothingT, NothingT>>)} ELSE {})

(* constructors: <<tag, name, number of arguments>> *)
Ctors ==
  (IF "generic" \in Frags
     THEN {<<"gen", "list", 1>>, <<"gen", "set", 1>>, <<"gen", "dict", 2>>,
           <<"gen", "typing.Sequence", 1>>, <<"gen", "typing.Mapping", 2>>} ELSE {})
  \cup (IF "extern" \in Frags THEN {<<"gen", "collections.OrderedDict", 2>>} ELSE {})
  \cup {<<"gen", c[1], c[2]>> : c \in {x \in RefClasses : x[2] > 0}}
  \cup (IF "tuple" \in Frags THEN {<<"htuple", "", 1>>, <<"tuple", "", 1>>, <<"tuple", "", 2>>} ELSE {})
  \cup (IF "callable" \in Frags
          THEN {<<"callable", "", 1>>, <<"callable", "", 2>>, <<"callable", "", 3>>, <<"callany", "", 1>>}
          ELSE {})
  \cup (IF "type" \in Frags THEN {<<"type", "", 1>>} ELSE {})
  \cup (IF "union" \in Frags
          THEN {<<"union", "", n>> : n \in {m \in 2 .. 3 : m <= Cardinality(Builtins)}} ELSE {})

IsCompound(t) == Args(t) # <<>>
ClassLike(t) == Tag(t) \in {"cls", "gen"} /\ t \notin {NoneT, Cls("bool"), Cls("object")}

(* may term t (a leaf, or a finished compound) become the next argument of frame f? *)
ArgOK(f, t) ==
  CASE f.tag = "union" -> Tag(t) \notin {"union", "any", "nothing"}
    [] f.tag = "type" -> Tag(t) \in {"cls", "any", "tvar"} /\ t # NoneT
    [] OTHER -> Tag(t) \notin {"lit", "nothing"}
(* may a constructor with tag c be opened as the next argument of frame f? *)
OpenOK(f, c) ==
  CASE f.tag = "union" -> c # "union"
    [] f.tag = "type" -> FALSE
    [] OTHER -> TRUE

RootNames == {Name(got[k]) : k \in DOMAIN got}
(* may a term with this tag / name be a whole type for the current goal? *)
RootOK(tag, name, isLeafTerm) ==
  CASE goal.what \in {"const", "prop", "param"} -> tag # "nothing"
    [] goal.what \in {"star", "kw"} -> tag \notin {"nothing", "any"}
    [] goal.what = "ret" -> TRUE
    [] goal.what = "alias" -> /\ tag \in {"gen", "union", "callable", "callany", "tuple", "htuple", "type", "cls"}
                              /\ ~(tag = "cls" /\ name = "NoneType")
                              \* pytype never emits an alias whose target is a nested class (it
                              \* emits the constant X: type[A.N]); the printer would write such an
                              \* alias as `from A import N as X`
                              /\ ~(tag = "cls" /\ name \in NestedClassNames)
    [] goal.what = "tvar" -> /\ tag \in {"cls", "gen"} /\ name \notin {"NoneType"}
                             /\ (isLeafTerm => tag = "cls")
                             /\ name \notin RootNames
    [] goal.what = "class" -> /\ tag \in {"cls", "gen"} /\ (isLeafTerm => tag = "cls")
                              /\ name \notin {"NoneType", "bool", "object"}
                              /\ name \notin {c[1] : c \in OpenClasses}
                              /\ name \notin RootNames
                              \* at most one base that brings ancestors along (two may bind a
                              \* type parameter of a common ancestor differently, e.g. str and
                              \* set[float] disagree on Iterable's, which no class can do)
                              /\ (Heavy(tag, name) =>
                                    \A k \in DOMAIN got : ~Heavy(Tag(got[k]), Name(got[k])))
    [] OTHER -> FALSE

(* fold a finished term into the frame stack; yields <<frames, finished root or <<>> >>.       *)
(* A union member equal to an earlier member is dropped (the union keeps waiting).              *)
RECURSIVE Place(_, _)
Place(fs, t) ==
  IF fs = <<>> THEN <<fs, <<t>>>>
  ELSE LET f == fs[Len(fs)]
           dup == f.tag = "union" /\ \E k \in DOMAIN f.args : SpecEq(f.args[k], t)
           args == IF dup THEN f.args ELSE Append(f.args, t) IN
       IF Len(args) < f.need
         THEN <<[fs EXCEPT ![Len(fs)].args = args], <<>>>>
         ELSE Place(SubSeq(fs, 1, Len(fs) - 1), <<f.tag, f.name, args>>)

Put(t) ==
  LET r == Place(frames, t) IN
    /\ frames' = r[1]
    /\ got' = IF r[2] = <<>> THEN got ELSE Append(got, r[2][1])
    /\ UNCHANGED <<scopes, fn, goal>> /\ Step

Fill(l) ==
  /\ Building /\ l \in Leaves
  /\ IF AtRoot THEN RootOK(Tag(l), Name(l), TRUE) ELSE ArgOK(TopFrame, l)
  /\ Put(l)

Open(c) ==
  /\ Building /\ c \in Ctors /\ Len(frames) < MaxDepth
  /\ IF AtRoot THEN RootOK(c[1], c[2], FALSE) ELSE OpenOK(TopFrame, c[1])
  /\ frames' = Append(frames, [tag |-> c[1], name |-> c[2], need |-> c[3], args |-> <<>>])
  /\ UNCHANGED <<scopes, fn, goal, got>> /\ Step

-----------------------------------------------------------------------------
(* declarations: Want* states the goal, Commit consumes the finished types *)
Want(g) == goal' = g /\ got' = <<>> /\ UNCHANGED <<scopes, fn, frames>> /\ Step
Ready == ~done /\ ~Idle /\ Len(got) = goal.need /\ frames = <<>>
AddDecl(d) == scopes' = [scopes EXCEPT ![Len(scopes)].body = Append(@, d)]
Clear == goal' = NoGoal /\ got' = <<>> /\ UNCHANGED frames /\ Step

WantConst(v) ==
  /\ Free /\ HasRoom /\ (v => "value" \in Frags)
  /\ FirstFree(ConstNames, NamesIn(Body)) # <<>>
  /\ Want([NoGoal EXCEPT !.what = "const", !.need = 1, !.v = v])
WantProp ==
  /\ Free /\ HasRoom /\ ~InModule /\ "prop" \in Frags
  /\ FirstFree(PropNames, NamesIn(Body)) # <<>>
  /\ Want([NoGoal EXCEPT !.what = "prop", !.need = 1])
WantAlias ==
  /\ Free /\ HasRoom /\ InModule /\ "alias" \in Frags
  /\ FirstFree(AliasNames, NamesIn(Body)) # <<>>
  /\ Want([NoGoal EXCEPT !.what = "alias", !.need = 1])
(* mode 0: plain, 1: bound, 2: two constraints *)
WantTVar(mode) ==
  /\ Free /\ HasRoom /\ InModule /\ "tvar" \in Frags
  /\ FirstFree(TVarNames, NamesIn(Body)) # <<>>
  /\ mode <= Cardinality(Builtins \ {"NoneType"})
  /\ Want([NoGoal EXCEPT !.what = "tvar", !.need = mode])

CommitDecl ==
  /\ Ready /\ goal.what \in {"const", "prop", "alias", "tvar"}
  /\ LET nm == IF goal.nm # "" THEN goal.nm
               ELSE FirstFree(CASE goal.what = "const" -> ConstNames [] goal.what = "prop" -> PropNames
                                [] goal.what = "alias" -> AliasNames [] OTHER -> TVarNames,
                              NamesIn(Body))[1] IN
       AddDecl(CASE goal.what = "const" -> [k |-> "const", n |-> nm, t |-> got[1], v |-> goal.v]
                 [] goal.what = "prop" -> [k |-> "prop", n |-> nm, t |-> got[1]]
                 [] goal.what = "alias" -> [k |-> "alias", n |-> nm, t |-> got[1]]
                 [] OTHER -> [k |-> "tvar", n |-> nm, b |-> IF goal.need = 1 THEN got ELSE <<>>,
                              cs |-> IF goal.need = 2 THEN got ELSE <<>>])
  /\ UNCHANGED fn /\ Clear

AddImport(i) ==
  /\ Free /\ HasRoom /\ InModule /\ "import" \in Frags
  /\ Imports[i].n \notin NamesIn(Body)
  /\ AddDecl([k |-> "import", n |-> Imports[i].n, m |-> Imports[i].m])
  /\ UNCHANGED <<fn, goal, got, frames>> /\ Step
AddFromImport(i) ==
  /\ Free /\ HasRoom /\ InModule /\ "import" \in Frags
  /\ FromImports[i].n \notin NamesIn(Body)
  /\ AddDecl([k |-> "fromimport", n |-> FromImports[i].n, m |-> FromImports[i].m])
  /\ UNCHANGED <<fn, goal, got, frames>> /\ Step

-----------------------------------------------------------------------------
(* functions *)
FirstParam(kind) ==
  IF InModule \/ kind = "static" THEN <<>>
  ELSE <<[n |-> IF kind = "class" THEN "cls" ELSE "self", t |-> AnyT, pk |-> "reg", o |-> FALSE]>>

(* ---- special method names ---- *)
KindNames  == <<"__new__", "__init_subclass__", "__class_getitem__", "__init__">>
MoreDunder == <<"__call__", "__getattr__", "__eq__", "__getitem__", "__setattr__", "__hash__",
                "__enter__", "__post_init__">>
DunderNames == SeqToSet(KindNames) \cup (IF "dunder2" \in Frags THEN SeqToSet(MoreDunder) ELSE {})
FirstNames == {"self", "cls", "other"}

(* THE NAME CONVENTION OF THE DIALECT, pinned at the verified commit.                             *)
(*   ImplicitStatic  read as a staticmethod whatever the decorators say; printed without           *)
(*                   @staticmethod  (function.py: `name == "__new__" or is_staticmethod`;          *)
(*                   printer.py: `STATICMETHOD and function_name != "__new__"`)                    *)
(*   ImplicitClass   the same for @classmethod (`__init_subclass__`)                               *)
(* Every other name - `__class_getitem__` in particular - has the kind its decorator states.      *)
ImplicitStatic == {"__new__"}
ImplicitClass  == {"__init_subclass__"}
Decorator(n, kind) ==
  CASE kind = "static" /\ n \notin ImplicitStatic -> "staticmethod"
    [] kind = "class" /\ n \notin ImplicitClass -> "classmethod"
    [] OTHER -> ""
ReadKind(n, deco) ==
  IF n \in ImplicitStatic \/ deco = "staticmethod" THEN "static"
  ELSE IF n \in ImplicitClass \/ deco = "classmethod" THEN "class" ELSE "method"
Denoted(n, kind) == ReadKind(n, Decorator(n, kind))        \* the kind the printed text denotes
TextStable(n, kind) == Decorator(n, Denoted(n, kind)) = Decorator(n, kind)

(* the class under construction, as a type; the first-parameter annotations the printer leaves   *)
(* out (printer.py VisitParameter: `self: <class>` and `cls: type[<class>]`, by parameter NAME)   *)
OwnClass == Cls(PathUpTo(Len(scopes)))
TypeOf(t) == <<"type", "", <<t>>>>
AbbrevFirst(fp) ==
  /\ fp # <<>> /\ ~InModule
  /\ \/ fp[1].n = "self" /\ fp[1].t = OwnClass
     \/ fp[1].n = "cls" /\ fp[1].t = TypeOf(OwnClass)
(* `self: type[C]` is left out: a self annotated with a parameterised type is the documented      *)
(* deviation generic-self-annotation-becomes-mutation, which has its own witness                  *)
FirstTypes(first) ==
  {AnyT} \cup (IF "fptype" \in Frags /\ ~InModule /\ first # ""
               THEN {OwnClass} \cup (IF first = "self" THEN {} ELSE {TypeOf(OwnClass)}) ELSE {})
DunderFirst(first, t) ==
  IF first = "" THEN <<>> ELSE <<[n |-> first, t |-> t, pk |-> "reg", o |-> FALSE]>>
FuncFlags == IF "flags" \in Frags
               THEN (IF InModule THEN {<<>>, <<"final">>, <<"coroutine">>}
                     ELSE {<<>>, <<"abstract">>, <<"final">>, <<"coroutine">>})
               ELSE {<<>>}

BeginDunder(nm, kind, flags, first, t) ==
  /\ Free /\ HasRoom /\ "func" \in Frags /\ "dunder" \in Frags
  /\ nm \in DunderNames /\ nm \notin NamesIn(Body)
  /\ kind \in (IF InModule THEN {"method"} ELSE {"method", "static", "class"})
  /\ flags \in FuncFlags
  /\ first \in FirstNames \cup {""} /\ t \in FirstTypes(first)
  /\ fn' = [NoFn EXCEPT !.n = nm, !.kind = kind, !.flags = flags, !.ps = DunderFirst(first, t),
                        !.fp = DunderFirst(first, t), !.open = TRUE, !.dn = TRUE]
  /\ UNCHANGED <<scopes, goal, got, frames>> /\ Step

WantDunderProp(nm) ==
  /\ Free /\ HasRoom /\ ~InModule /\ "prop" \in Frags /\ "dunder" \in Frags
  /\ nm \in DunderNames /\ nm \notin NamesIn(Body)
  /\ Want([NoGoal EXCEPT !.what = "prop", !.need = 1, !.nm = nm])

BeginFunc(kind, flags) ==
  /\ Free /\ HasRoom /\ "func" \in Frags
  /\ kind \in (IF InModule THEN {"method"} ELSE {"method", "static", "class"})
  /\ flags \in (IF "flags" \in Frags
                  THEN (IF InModule THEN {<<>>, <<"final">>, <<"coroutine">>}
                        ELSE {<<>>, <<"abstract">>, <<"final">>, <<"coroutine">>})
                  ELSE {<<>>})
  /\ LET nm == FirstFree(IF InModule THEN FuncNames ELSE MethNames, NamesIn(Body)) IN
       /\ nm # <<>>
       /\ (nm[1] = "__init__" => kind = "method" /\ flags = <<>>)
       /\ fn' = [NoFn EXCEPT !.n = nm[1], !.kind = kind, !.flags = flags,
                             !.ps = FirstParam(kind), !.fp = FirstParam(kind), !.open = TRUE]
  /\ UNCHANGED <<scopes, goal, got, frames>> /\ Step

InSig == ~done /\ Idle /\ FnOpen /\ fn.open

BeginSig ==
  /\ ~done /\ Idle /\ FnOpen /\ ~fn.open /\ Len(fn.sigs) < MaxSigs
  /\ fn' = [fn EXCEPT !.ps = fn.fp, !.star = <<>>, !.kw = <<>>, !.open = TRUE]
  /\ UNCHANGED <<scopes, goal, got, frames>> /\ Step

OwnParams == Len(fn.ps) - Len(fn.fp)
Positional(ps) == {k \in DOMAIN ps : ps[k].pk # "kw"}

ParamOK(opt, pk) ==
  /\ fn.kw = <<>> /\ OwnParams < MaxParams
  /\ (opt => "default" \in Frags)
  /\ pk \in {"reg"} \cup (IF "posonly" \in Frags THEN {"pos"} ELSE {})
              \cup (IF "kwonly" \in Frags THEN {"kw"} ELSE {})
  /\ pk = "pos" => \A k \in DOMAIN fn.ps : fn.ps[k].pk = "pos" \/ k <= Len(fn.fp)
  /\ pk = "pos" => fn.star = <<>>
  /\ pk = "reg" => fn.star = <<>> /\ \A k \in DOMAIN fn.ps : fn.ps[k].pk # "kw"
  /\ (pk # "kw" /\ ~opt) => \A k \in Positional(fn.ps) : ~fn.ps[k].o

WithParam(t, opt, pk) ==
  LET p == [n |-> ParamNames[OwnParams + 1], t |-> t, pk |-> pk, o |-> opt]
      prev == IF pk = "pos" THEN [k \in DOMAIN fn.ps |-> [fn.ps[k] EXCEPT !.pk = "pos"]]
              ELSE fn.ps IN
    [fn EXCEPT !.ps = Append(prev, p)]

(* an untyped parameter (type Any) is added at once, a typed one after its type is built *)
AddParam(opt, pk) ==
  /\ InSig /\ ParamOK(opt, pk)
  /\ fn' = WithParam(AnyT, opt, pk)
  /\ UNCHANGED <<scopes, goal, got, frames>> /\ Step
WantParam(opt, pk) ==
  /\ InSig /\ ParamOK(opt, pk)
  /\ Want([NoGoal EXCEPT !.what = "param", !.need = 1, !.opt = opt, !.pk = pk])

StarOK == fn.kw = <<>> /\ fn.star = <<>> /\ "star" \in Frags /\ \A k \in DOMAIN fn.ps : fn.ps[k].pk # "kw"
AddStar == /\ InSig /\ StarOK
           /\ fn' = [fn EXCEPT !.star = <<[n |-> "args", t |-> AnyT]>>]
           /\ UNCHANGED <<scopes, goal, got, frames>> /\ Step
WantStar == InSig /\ StarOK /\ Want([NoGoal EXCEPT !.what = "star", !.need = 1])
KwOK == fn.kw = <<>> /\ "star" \in Frags
AddKw == /\ InSig /\ KwOK
         /\ fn' = [fn EXCEPT !.kw = <<[n |-> "kwargs", t |-> AnyT]>>]
         /\ UNCHANGED <<scopes, goal, got, frames>> /\ Step
WantKw == InSig /\ KwOK /\ Want([NoGoal EXCEPT !.what = "kw", !.need = 1])

WithSig(r) ==
  LET s == [ps |-> fn.ps, star |-> fn.star, kw |-> fn.kw, r |-> r] IN
    [fn EXCEPT !.sigs = IF \E k \in DOMAIN fn.sigs : fn.sigs[k] = s THEN @ ELSE Append(@, s),
               !.ps = <<>>, !.star = <<>>, !.kw = <<>>, !.open = FALSE]

WantRet == InSig /\ fn.n # "__init__" /\ Want([NoGoal EXCEPT !.what = "ret", !.need = 1])
(* return types that need no construction: None for __init__, `nothing` (printed Never) *)
EndSigNone ==
  /\ InSig /\ fn.n = "__init__"
  /\ fn' = WithSig(NoneT) /\ UNCHANGED <<scopes, goal, got, frames>> /\ Step
EndSigNever ==
  /\ InSig /\ fn.n # "__init__" /\ "nothing" \in Frags
  /\ fn' = WithSig(NothingT) /\ UNCHANGED <<scopes, goal, got, frames>> /\ Step

CommitSig ==
  /\ Ready /\ goal.what \in {"param", "star", "kw", "ret"}
  /\ fn' = CASE goal.what = "param" -> WithParam(got[1], goal.opt, goal.pk)
             [] goal.what = "star" -> [fn EXCEPT !.star = <<[n |-> "args", t |-> got[1]]>>]
             [] goal.what = "kw" -> [fn EXCEPT !.kw = <<[n |-> "kwargs", t |-> got[1]]>>]
             [] OTHER -> WithSig(got[1])
  /\ UNCHANGED scopes /\ Clear

EndFunc ==
  /\ ~done /\ Idle /\ FnOpen /\ ~fn.open /\ fn.sigs # <<>>
  /\ AddDecl(IF fn.dn
               THEN [k |-> "func", n |-> fn.n, kind |-> fn.kind, flags |-> fn.flags, sigs |-> fn.sigs,
                     rk |-> Denoted(fn.n, fn.kind), ab |-> AbbrevFirst(fn.fp)]
               ELSE [k |-> "func", n |-> fn.n, kind |-> fn.kind, flags |-> fn.flags, sigs |-> fn.sigs])
  /\ fn' = NoFn /\ UNCHANGED <<goal, got, frames>> /\ Step

-----------------------------------------------------------------------------
(* classes: the goal collects nb base types, Commit opens the class scope *)
TpChoices == {<<>>} \cup {<<v>> : v \in DeclaredTVars}
             \cup {p \in {<<v, w>> : v \in DeclaredTVars, w \in DeclaredTVars} : p[1] # p[2]}
SlotChoices == IF "slots" \in Frags THEN {<<>>, <<<<>>>>, <<<<"u", "v">>>>} ELSE {<<>>}
MetaChoices == IF "meta" \in Frags THEN {<<>>, <<Cls("abc.ABCMeta")>>} ELSE {<<>>}

WantClass(nb, tps, slots, meta) ==
  /\ Free /\ HasRoom /\ "class" \in Frags /\ Len(scopes) <= MaxNest
  /\ tps \in TpChoices /\ slots \in SlotChoices /\ meta \in MetaChoices
  /\ (tps # <<>> => InModule)
  /\ nb <= Cardinality(Builtins \ {"NoneType", "bool", "object"})
  /\ FirstFree(IF InModule THEN ClassNames ELSE NestNames, NamesIn(Body)) # <<>>
  /\ Want([NoGoal EXCEPT !.what = "class", !.need = nb, !.tps = tps, !.slots = slots, !.meta = meta])

CommitClass ==
  /\ Ready /\ goal.what = "class"
  /\ LET nm == FirstFree(IF InModule THEN ClassNames ELSE NestNames, NamesIn(Body))[1] IN
       scopes' = Append(scopes,
         [n |-> nm,
          bases |-> IF goal.tps = <<>> THEN got
                    ELSE Append(got, Gen("typing.Generic", [k \in DOMAIN goal.tps |-> TVar(goal.tps[k])])),
          meta |-> goal.meta, slots |-> goal.slots, tps |-> goal.tps, body |-> <<>>])
  /\ UNCHANGED fn /\ Clear

EndClass ==
  /\ Free /\ Len(scopes) > 1
  /\ LET c == Top IN
       scopes' = [SubSeq(scopes, 1, Len(scopes) - 1) EXCEPT ![Len(scopes) - 1].body =
                    Append(@, [k |-> "class", n |-> c.n, bases |-> c.bases, meta |-> c.meta,
                               slots |-> c.slots, tps |-> c.tps, body |-> c.body])]
  /\ UNCHANGED <<fn, goal, got, frames>> /\ Step

(* the stub is finished when the module is full; no other action is enabled then *)
End ==
  /\ ~done /\ Quiescent /\ ~HasRoom
  /\ done' = TRUE /\ steps' = steps + 1
  /\ UNCHANGED <<scopes, fn, goal, got, frames>>

-----------------------------------------------------------------------------
Init ==
  /\ scopes = <<Module0>> /\ fn = NoFn /\ goal = NoGoal /\ got = <<>> /\ frames = <<>>
  /\ steps = 0 /\ done = FALSE

BuildType == (\E l \in Leaves : Fill(l)) \/ (\E c \in Ctors : Open(c))

Declare ==
  \/ \E v \in BOOLEAN : WantConst(v)
  \/ WantProp \/ WantAlias
  \/ \E m \in 0 .. 2 : WantTVar(m)
  \/ \E i \in DOMAIN Imports : AddImport(i)
  \/ \E i \in DOMAIN FromImports : AddFromImport(i)
  \/ CommitDecl

Function ==
  \/ \E kind \in {"method", "static", "class"},
        flags \in {<<>>, <<"abstract">>, <<"final">>, <<"coroutine">>} : BeginFunc(kind, flags)
  \/ BeginSig
  \/ \E opt \in BOOLEAN, pk \in {"pos", "reg", "kw"} : AddParam(opt, pk) \/ WantParam(opt, pk)
  \/ AddStar \/ WantStar \/ AddKw \/ WantKw
  \/ WantRet \/ EndSigNone \/ EndSigNever \/ CommitSig \/ EndFunc

Class ==
  \/ \E nb \in 0 .. MaxBases, tps \in TpChoices, slots \in SlotChoices, meta \in MetaChoices :
       WantClass(nb, tps, slots, meta)
  \/ CommitClass \/ EndClass

AllDunder == SeqToSet(KindNames) \cup SeqToSet(MoreDunder)
Dunder ==
  \/ \E nm \in AllDunder, kind \in {"method", "static", "class"},
        flags \in {<<>>, <<"abstract">>, <<"final">>, <<"coroutine">>},
        first \in FirstNames \cup {""} :
        \E t \in FirstTypes(first) : BeginDunder(nm, kind, flags, first, t)
  \/ \E nm \in AllDunder : WantDunderProp(nm)

Next == BuildType \/ Declare \/ Function \/ Class \/ End
(* the generator with the special-name alphabet (a separate next-state relation, so that the     *)
(* behaviours TLC draws for the configurations that use Next stay exactly what they were)         *)
NextD == Next \/ Dunder
Spec == Init /\ [][Next]_vars
SpecD == Init /\ [][NextD]_vars

-----------------------------------------------------------------------------
(* properties of the generator itself *)
TypeOK ==
  /\ Len(scopes) \in 1 .. MaxNest + 1
  /\ Len(frames) <= MaxDepth
  /\ \A k \in DOMAIN got : Depth(got[k]) <= MaxDepth
  /\ Len(got) <= goal.need
  /\ Len(scopes[1].body) <= MaxTop
  /\ \A k \in 2 .. Len(scopes) : Len(scopes[k].body) <= MaxBody
  /\ done => Quiescent

(* no dead ends: some action is enabled in every state but the final one *)
NoDeadEnd == done \/ ENABLED Next
NoDeadEndD == done \/ ENABLED NextD

(* well-scopedness of everything built so far: names are unique per scope *)
RECURSIVE UniqueNames(_)
UniqueNames(body) ==
  /\ \A i, j \in DOMAIN body : i # j => body[i].n # body[j].n
  /\ \A i \in DOMAIN body : body[i].k = "class" => UniqueNames(body[i].body)
WellScoped == \A k \in DOMAIN scopes : UniqueNames(scopes[k].body)

(* the dialect restrictions on type terms hold for every finished type *)
RECURSIVE TermOK(_)
TermOK(t) ==
  /\ \A k \in DOMAIN Args(t) : TermOK(Args(t)[k])
  /\ Tag(t) = "union" =>
       /\ Len(Args(t)) >= 2
       /\ \A k \in DOMAIN Args(t) : Tag(Args(t)[k]) \notin {"union", "any", "nothing"}
       /\ \A j, k \in DOMAIN Args(t) : j # k => ~SpecEq(Args(t)[j], Args(t)[k])
  /\ Tag(t) \notin {"union"} => \A k \in DOMAIN Args(t) : Tag(Args(t)[k]) # "lit"
RECURSIVE TermsOKIn(_)
TermsOKIn(body) ==
  \A i \in DOMAIN body :
    /\ body[i].k \in {"const", "prop", "alias"} => TermOK(body[i].t)
    /\ body[i].k = "func" => \A k \in DOMAIN body[i].sigs :
         /\ TermOK(body[i].sigs[k].r)
         /\ \A p \in DOMAIN body[i].sigs[k].ps : TermOK(body[i].sigs[k].ps[p].t)
    /\ body[i].k = "class" => TermsOKIn(body[i].body)
TermsOK == (\A k \in DOMAIN scopes : TermsOKIn(scopes[k].body)) /\ \A k \in DOMAIN got : TermOK(got[k])

(* signatures obey the ordering rules of `def` *)
SigOK(s) ==
  /\ \A i, j \in DOMAIN s.ps : i < j =>
       /\ ~(s.ps[i].pk = "reg" /\ s.ps[j].pk = "pos")
       /\ ~(s.ps[i].pk = "kw" /\ s.ps[j].pk # "kw")
       /\ (s.ps[i].pk # "kw" /\ s.ps[j].pk # "kw" /\ s.ps[i].o) => s.ps[j].o
  /\ \A i, j \in DOMAIN s.ps : i # j => s.ps[i].n # s.ps[j].n
SigTVarsOK(s, ctv) ==
  TVarsOf(s.r) \subseteq
    UNION ({TVarsOf(s.ps[k].t) : k \in DOMAIN s.ps} \cup {TVarsOf(s.star[k].t) : k \in DOMAIN s.star}
           \cup {TVarsOf(s.kw[k].t) : k \in DOMAIN s.kw}) \cup ctv
RECURSIVE SigsOK(_, _)
SigsOK(body, ctv) ==
  \A i \in DOMAIN body :
    /\ body[i].k = "func" => \A k \in DOMAIN body[i].sigs :
                               SigOK(body[i].sigs[k]) /\ SigTVarsOK(body[i].sigs[k], ctv)
    /\ body[i].k = "class" => SigsOK(body[i].body, ctv \cup SeqToSet(body[i].tps))
SignaturesOK ==
  \A k \in DOMAIN scopes :
    SigsOK(scopes[k].body, UNION {SeqToSet(scopes[j].tps) : j \in 1 .. k})

(* the pinned name convention on everything BeginDunder declared: reading is idempotent (what   *)
(* is read from the re-printed text is what was read from the text), rk is the denoted kind,      *)
(* and the only cell whose text the convention itself does not reproduce is a `__new__` marked    *)
(* @classmethod (read as a staticmethod; the documented deviation classmethod-new)                *)
RECURSIVE DundersIn(_)
DundersIn(body) ==
  UNION {IF body[i].k = "func" /\ "rk" \in DOMAIN body[i] THEN {body[i]}
         ELSE IF body[i].k = "class" THEN DundersIn(body[i].body) ELSE {} : i \in DOMAIN body}
KindConvention ==
  \A k \in DOMAIN scopes : \A f \in DundersIn(scopes[k].body) :
    /\ f.rk = Denoted(f.n, f.kind)
    /\ Denoted(f.n, f.rk) = f.rk
    /\ (f.n \notin ImplicitStatic \cup ImplicitClass => f.rk = f.kind)
    /\ (~TextStable(f.n, f.kind) => <<f.n, f.kind>> = <<"__new__", "class">>)

Stub == [decls |-> scopes[1].body]
ExportInv ==
  CASE ExportMode = "final" -> (done => PrintT(<<"CASE", ToJson(Stub)>>))
    [] ExportMode = "states" -> (Quiescent => PrintT(<<"CASE", ToJson(Stub)>>))
    [] OTHER -> TRUE

StubView == <<scopes, fn, goal, got, frames, done>>
=============================================================================

----------------------------- MODULE PytdTerms -----------------------------
(* Type terms of pytd (pytype/pytd/pytd.py) and the equality law that its node classes are    *)
(* meant to implement.  Pure operators; used by PytdEq (enumeration of term pairs), StubGen    *)
(* (generator of stubs), TraceC05/TraceC12 (verdicts on what the real code produced).          *)
(*                                                                                            *)
(* A type term is a uniform triple <<tag, name, args>> (args: sequence of type terms):        *)
(*   any, nothing             AnythingType, NothingType                                       *)
(*   cls / named / classtype / late   a class by name: NamedType (StubGen's "cls" is emitted  *)
(*                            as NamedType or ClassType by the driver), ClassType, LateType    *)
(*   gen(base; params)        GenericType                                                      *)
(*   htuple(; elem)           GenericType(tuple, (elem,))     printed tuple[elem, ...]         *)
(*   tuple(; elems)           TupleType                        printed tuple[a, b] / tuple[()] *)
(*   callable(; args.., ret)  CallableType                     printed Callable[[a], r]        *)
(*   callany(; ret)           GenericType(Callable, (Any, r))  printed Callable[..., r]        *)
(*   type(; t)                GenericType(type, (t,))                                          *)
(*   union(; members)         UnionType       (flattens nested unions, drops duplicates)       *)
(*   inter(; members)         IntersectionType                                                 *)
(*   lit("kind:value")        Literal; kinds int, str, bool (Constant builtins.True, as        *)
(*                            output.py emits), pybool (raw bool, as the pyi parser builds),   *)
(*                            enum (Constant E.X of class E), type (a class as the value)      *)
(*   tvar(name)               TypeParameter                                                    *)
EXTENDS Naturals, Sequences, FiniteSets, TLC

Tag(t)  == t[1]
Name(t) == t[2]
Args(t) == t[3]
T0(tag, name) == <<tag, name, <<>>>>
AnyT     == T0("any", "")
NothingT == T0("nothing", "")
Cls(n)   == T0("cls", n)
Lit(v)   == T0("lit", v)
TVar(n)  == T0("tvar", n)
NoneT    == Cls("NoneType")
Gen(b, args) == <<"gen", b, args>>
Union(args)  == <<"union", "", args>>

SetLike == {"union", "inter"}
SeqToSet(s) == {s[x] : x \in DOMAIN s}

RECURSIVE Depth(_)
Depth(t) ==
  IF Args(t) = <<>> THEN 0
  ELSE 1 + (CHOOSE m \in {Depth(Args(t)[k]) : k \in DOMAIN Args(t)} :
              \A k \in DOMAIN Args(t) : Depth(Args(t)[k]) <= m)

RECURSIVE TVarsOf(_)
TVarsOf(t) ==
  IF Tag(t) = "tvar" THEN {Name(t)}
  ELSE UNION {TVarsOf(Args(t)[k]) : k \in DOMAIN Args(t)}

RECURSIVE HasTag(_, _)
HasTag(t, tags) == Tag(t) \in tags \/ \E k \in DOMAIN Args(t) : HasTag(Args(t)[k], tags)

(* _FlattenTypes: members that are themselves unions/intersections are spliced in *)
RECURSIVE FlatMembers(_)
FlatMembers(args) ==
  UNION {IF Tag(args[k]) \in SetLike THEN FlatMembers(Args(args[k])) ELSE {args[k]}
           : k \in DOMAIN args}

(* ---- SpecEq: the equality the node classes are meant to implement -------------------------- *)
(* msgspec structs compare field by field and only within the same class (pytd/parse/node.py);  *)
(* ClassType compares class and name; _SetOfTypes.__eq__ "doesn't care about the ordering of    *)
(* the type_list": unions (and intersections) are compared as sets of members.                  *)
RECURSIVE SpecEq(_, _)
SpecEq(a, b) ==
  /\ Tag(a) = Tag(b)
  /\ Name(a) = Name(b)
  /\ IF Tag(a) \in SetLike
       THEN LET A == FlatMembers(Args(a))
                B == FlatMembers(Args(b)) IN
            /\ \A x \in A : \E y \in B : SpecEq(x, y)
            /\ \A y \in B : \E x \in A : SpecEq(x, y)
       ELSE /\ Len(Args(a)) = Len(Args(b))
            /\ \A k \in DOMAIN Args(a) : SpecEq(Args(a)[k], Args(b)[k])

(* A canonical form CanonForm with SpecEq(a, b) <=> CanonForm(a) = CanonForm(b): its existence is what makes a    *)
(* hash consistent with the equality possible (hash o CanonForm).  4-tuples <<tag, name, seq, set>>. *)
RECURSIVE CanonForm(_)
CanonForm(t) ==
  IF Tag(t) \in SetLike
    THEN <<Tag(t), Name(t), <<>>, {CanonForm(m) : m \in FlatMembers(Args(t))}>>
    ELSE <<Tag(t), Name(t), [k \in DOMAIN Args(t) |-> CanonForm(Args(t)[k])], {}>>

(* the two terms differ at most by order / duplication / nesting of union members *)
OrderVariant(a, b) == a # b /\ SpecEq(a, b)

(* the two terms are different types that become equal when a raw-bool literal (the form the   *)
(* pyi parser builds) is replaced by the int literal Python compares it equal to (True == 1)   *)
RECURSIVE NormLit(_)
NormLit(t) ==
  IF t = Lit("pybool:True") THEN Lit("int:1")
  ELSE IF t = Lit("pybool:False") THEN Lit("int:0")
  ELSE <<Tag(t), Name(t), [k \in DOMAIN Args(t) |-> NormLit(Args(t)[k])]>>
LitVariant(a, b) == ~SpecEq(a, b) /\ SpecEq(NormLit(a), NormLit(b))

(* ---- class-pointer states (C12) ------------------------------------------------------------ *)
(* In a resolved AST a class is a ClassType node: a name plus a mutable pointer `cls` to the     *)
(* class definition.  The pointer is NOT part of the node's identity (ClassType.__eq__ compares  *)
(* class and name; visitors fill it in and clear it IN PLACE: FillInLocalPointers, LookupClasses,*)
(* ClearClassPointers inside SerializeAst), so the equality law - and with it hashing - must     *)
(* hold across pointer states: a node whose pointers are filled in equals, hashes like and       *)
(* de-duplicates with the same node without pointers.                                            *)
(* CtDialect(t): the term as it is built in the ClassType dialect (every class reference is a    *)
(* ClassType, also the implicit ones: the base of a generic / tuple / callable / type[] and the  *)
(* class of a bool / enum-member / class-valued literal).                                        *)
RECURSIVE CtDialect(_)
CtDialect(t) ==
  <<IF Tag(t) \in {"named", "cls"} THEN "classtype" ELSE Tag(t), Name(t),
    [k \in DOMAIN Args(t) |-> CtDialect(Args(t)[k])]>>
(* literal payloads that hold a class reference *)
PtrLits == {"bool:True", "bool:False", "enum:E.X", "enum:E.Y", "type:A"}
(* does the ClassType-dialect node of t hold a class pointer somewhere? *)
RECURSIVE HasPtr(_)
HasPtr(t) ==
  \/ Tag(t) \in {"named", "cls", "classtype", "gen", "htuple", "tuple", "callable", "callany", "type"}
  \/ (Tag(t) = "lit" /\ Name(t) \in PtrLits)
  \/ \E k \in DOMAIN Args(t) : HasPtr(Args(t)[k])
(* the life of one node object: pointers filled in, cleared by Serialize, the copy DecodeAst     *)
(* builds, pointers filled in on the copy; the pointer state the node must be in after each step *)
LifeOps == <<"Fill", "Clear", "Decode", "Refill">>
PtrAfter(op) == IF op \in {"Fill", "Refill"} THEN "r" ELSE "u"
=============================================================================

------------------------------ MODULE TraceC05 ------------------------------
(* Code -> spec for C05.  Each case is one stub AST (emitted by pytype for a program, or built   *)
(* from a StubGen behaviour) with its recorded runs of the text line of StubRoundTrip on the     *)
(* real code: printed, parsed back, verified, re-printed, re-parsed, canonicalised, loaded        *)
(* through the loader; every event carries the outcome and the digest of the artifact.           *)
(*   events     the main run (the stub as it is) - the only run that yields a verdict             *)
(*   devs       the documented deviations whose trigger occurs in the stub                         *)
(*   variants   counterfactual runs <<without, events>>: the same stub with the triggers of the    *)
(*              deviations `without` removed (all of devs; and devs minus one, for each)           *)
(* The spec state is advanced with StubRoundTrip's own actions (an event that the protocol does   *)
(* not allow in the current phase stops the walk: POSTCONDITION Done fails = machinery error).    *)
(* At the end of the last run of a case the verdict is C05Fails of the main run; BAD lines name   *)
(* every violated clause and the attribution:                                                     *)
(*   attr = the deviations that explain the failure: the run with all of devs neutralised is     *)
(*          clean, and d is in attr iff neutralising all but d still fails (all of devs if that   *)
(*          singles out none); {"unexplained"} if no trigger is present or the fully neutralised  *)
(*          run still fails (its clauses are `residual`).                                         *)
(* NOTE lines carry the observations that are not part of the property.  Verdicts are total.      *)
(* Special method names (StubGen.tla NextD): the cases of the families dunder-* and of the         *)
(* dunder simulation are judged by the same clauses - fixpoint (a name the reader gives a kind by  *)
(* NAME while the printer spells the kind out, or the reverse, changes the re-printed text),      *)
(* asteq, and orig, whose Compare event is taken against the declarations StubGen.tla says the     *)
(* text denotes under its pinned name convention (ImplicitStatic / ImplicitClass / AbbrevFirst).   *)
EXTENDS StubRoundTrip, Json, IOUtils, TLCExt

Cases == JsonDeserialize(IOEnv.TRACE_FILE)

VARIABLES i,      \* case
          v,      \* run of the case: 1 = main, 1 + x = variant x
          k,      \* events of the run consumed so far
          acc     \* fails of the finished runs of the case, notes of the main run

ToSetT(s) == {s[x] : x \in DOMAIN s}

Apply(e) ==
  CASE e.op = "Print"   -> PrintStub(e.ok, e.d)
    [] e.op = "Parse"   -> ParseText(e.ok, e.d)
    [] e.op = "Verify"  -> VerifyAst(e.ok)
    [] e.op = "Reprint" -> ReprintAst(e.ok, e.d)
    [] e.op = "Reparse" -> ReparseText(e.ok, e.d, e.e)
    [] e.op = "Canon"   -> CanonText(e.ok, e.d, e.e)
    [] e.op = "Resolve" -> ResolveText(e.ok)
    [] e.op = "Compare" -> CompareOrig(e.ok, e.e)

NRuns(c) == 1 + Len(c.variants)
Events(c, r) == IF r = 1 THEN c.events ELSE c.variants[r - 1].events

TInit == /\ i = 1 /\ v = 1 /\ k = 0 /\ acc = <<>>
         /\ line = "text" /\ phase = "start" /\ art = Art0 /\ TLCSet(1, FALSE)

RunFails(c, r) ==
  C05Fails(art)
  \cup (IF Ended THEN {} ELSE {"incomplete"})                            \* the recording stopped early
  \cup (IF r > 1 \/ c.emit_eq THEN {} ELSE {"emitted-text"})             \* pyi # Print(ast) + newline

StepEvent ==
  /\ i <= Len(Cases) /\ k < Len(Events(Cases[i], v))
  /\ Apply(Events(Cases[i], v)[k + 1])
  /\ k' = k + 1 /\ UNCHANGED <<i, v, acc>>

NextRun ==
  /\ i <= Len(Cases) /\ k = Len(Events(Cases[i], v)) /\ v < NRuns(Cases[i])
  /\ acc' = Append(acc, [fails |-> RunFails(Cases[i], v), notes |-> C05Notes(art)])
  /\ v' = v + 1 /\ k' = 0 /\ i' = i /\ Start("text")

NextCase ==
  /\ i <= Len(Cases) /\ k = Len(Events(Cases[i], v)) /\ v = NRuns(Cases[i])
  /\ i' = i + 1 /\ v' = 1 /\ k' = 0 /\ acc' = <<>> /\ Start("text")
  /\ (i' > Len(Cases) => TLCSet(1, TRUE))

TNext == StepEvent \/ NextRun \/ NextCase

AtEnd == i <= Len(Cases) /\ k = Len(Events(Cases[i], v)) /\ v = NRuns(Cases[i])

(* fails / notes per run, once the last run of the case is complete *)
All == Append(acc, [fails |-> RunFails(Cases[i], v), notes |-> C05Notes(art)])

Verdict ==
  LET c == Cases[i]
      all == All
      main == all[1].fails
      present == ToSetT(c.devs)
      VarOf(S) == {x \in DOMAIN c.variants : ToSetT(c.variants[x].without) = S}
      full == VarOf(present)
      residual == IF present = {} \/ full = {} THEN main
                  ELSE all[1 + (CHOOSE x \in full : TRUE)].fails
      needed == {d \in present : \E x \in VarOf(present \ {d}) : all[1 + x].fails # {}}
      attr == IF main = {} THEN {}
              ELSE IF present = {} \/ residual # {} THEN {"unexplained"}
              ELSE IF needed = {} THEN present ELSE needed IN
    [i |-> i, id |-> c.id, fails |-> main, attr |-> attr,
     residual |-> IF attr = {"unexplained"} THEN residual ELSE {}]

Ok ==
  AtEnd =>
    /\ LET r == Verdict IN r.fails = {} \/ PrintT(<<"BAD", ToJson(r)>>)
    /\ LET n == All[1].notes IN
         n = {} \/ PrintT(<<"NOTE", ToJson([i |-> i, id |-> Cases[i].id, notes |-> n])>>)

Done == TLCGet(1)
=============================================================================

------------------------------ MODULE TraceC05 ------------------------------
(* Code -> spec for C05.  Each case is one recorded run of the text line of StubRoundTrip on     *)
(* the real code: a stub AST (emitted by pytype for a program, or built from a StubGen           *)
(* behaviour) was printed, parsed back, verified, re-printed, re-parsed, canonicalised and       *)
(* loaded through the loader; every event carries the outcome and the digest of the artifact.    *)
(* The spec state is advanced with StubRoundTrip's own actions (an event that the protocol does   *)
(* not allow in the current phase stops the walk: POSTCONDITION Done fails = machinery error).    *)
(* At the end of a run the verdict is C05Fails(art); BAD lines name every violated clause,       *)
(* NOTE lines the observations that are not part of the property.  Verdicts are total.           *)
EXTENDS StubRoundTrip, Json, IOUtils, TLCExt

Cases == JsonDeserialize(IOEnv.TRACE_FILE)

VARIABLES i, k

Apply(e) ==
  CASE e.op = "Print"   -> PrintStub(e.ok, e.d)
    [] e.op = "Parse"   -> ParseText(e.ok, e.d)
    [] e.op = "Verify"  -> VerifyAst(e.ok)
    [] e.op = "Reprint" -> ReprintAst(e.ok, e.d)
    [] e.op = "Reparse" -> ReparseText(e.ok, e.d, e.e)
    [] e.op = "Canon"   -> CanonText(e.ok, e.d, e.e)
    [] e.op = "Resolve" -> ResolveText(e.ok)
    [] e.op = "Compare" -> CompareOrig(e.ok, e.e)

TInit == i = 1 /\ k = 0 /\ line = "text" /\ phase = "start" /\ art = Art0 /\ TLCSet(1, FALSE)

StepEvent ==
  /\ i <= Len(Cases) /\ k < Len(Cases[i].events)
  /\ Apply(Cases[i].events[k + 1])
  /\ k' = k + 1 /\ i' = i

NextCase ==
  /\ i <= Len(Cases) /\ k = Len(Cases[i].events)
  /\ i' = i + 1 /\ k' = 0 /\ Start("text")
  /\ (i' > Len(Cases) => TLCSet(1, TRUE))

TNext == StepEvent \/ NextCase

AtEnd == i <= Len(Cases) /\ k = Len(Cases[i].events)

Fails ==
  C05Fails(art)
  \cup (IF Ended THEN {} ELSE {"incomplete"})                       \* the recording stopped early
  \cup (IF Cases[i].emit_eq THEN {} ELSE {"emitted-text"})          \* pyi # Print(ast) + newline

Ok ==
  AtEnd =>
    /\ LET f == Fails IN
         f = {} \/ PrintT(<<"BAD", ToJson([i |-> i, id |-> Cases[i].id, fails |-> f])>>)
    /\ LET n == C05Notes(art) IN
         n = {} \/ PrintT(<<"NOTE", ToJson([i |-> i, id |-> Cases[i].id, notes |-> n])>>)

Done == TLCGet(1)
=============================================================================

------------------------------- MODULE C3Ops -------------------------------
(* Pure operators of the class-linearisation specification (property C10).                   *)
(*                                                                                            *)
(* A hierarchy H is a sequence of class statements; H[c] is the list of bases of statement   *)
(* c (class ids of EARLIER statements that succeeded, or OBJ = 0 for an explicitly written    *)
(* `object`); the empty list is `class K: ...`, whose only base is the implicit object.       *)
(* Lin(H)[c] = [st |-> "ok", mro |-> <<c, ..., 0>>]  or  [st |-> "dup" | "order", mro |-> <<>>]*)
(* is what CPython's type.__new__ / mro_internal does with the statement:                     *)
(*   "dup"   : a base is listed twice         (TypeError: duplicate base class)               *)
(*   "order" : the C3 merge finds no candidate (TypeError: Cannot create a consistent MRO)    *)
(* A failed statement binds no name: later statements cannot use it as a base.                *)
(*                                                                                            *)
(* Generic bases.  An entry of a base list is a SPELLING b = Origin(b) + 100 * Sp(b):          *)
(*   Sp = 0  the bare class `K`          Sp = 1  `K[int]`      Sp = 2  `K[str]`               *)
(*   Sp = 3  `K[T]` (T a type variable; the new class is generic again)                       *)
(* and GEN = 99 is `Generic[T]` (typing.Generic, MRO <<GEN, OBJ>>), written last in a list.    *)
(* A class is generic (subscriptable) iff its statement lists Generic[T] or a K[T] base.       *)
(* At run time __mro_entries__ erases the subscripts: type.__new__ sees the ORIGINS, so the    *)
(* linearisation and the duplicate-base test work on origins (`class D(K, K[int])` and         *)
(* `class D(K[int], P, K[str])` are "duplicate base class K").                                 *)
EXTENDS Naturals, Sequences, FiniteSets

OBJ == 0
GEN == 99
Origin(b) == b % 100
Sp(b) == b \div 100
Origins(bs) == [k \in DOMAIN bs |-> Origin(bs[k])]
ToSet(s) == {s[x] : x \in DOMAIN s}
MinOf(S) == CHOOSE x \in S : \A y \in S : x <= y

HasDup(s) == \E a, b \in DOMAIN s : a # b /\ s[a] = s[b]
InTail(x, s) == \E k \in 2 .. Len(s) : s[k] = x
(* position of x in a duplicate-free sequence that contains it *)
Pos(x, s) == CHOOSE k \in DOMAIN s : s[k] = x
(* a is a subsequence of b, both duplicate-free *)
SubSeqOf(a, b) ==
  /\ ToSet(a) \subseteq ToSet(b)
  /\ \A p, q \in DOMAIN a : p < q => Pos(a[p], b) < Pos(a[q], b)

-----------------------------------------------------------------------------
(* The C3 merge (CPython Objects/typeobject.c pmerge; pytype/pytd/mro.py MergeSequences)      *)

AllEmpty(seqs) == \A k \in DOMAIN seqs : seqs[k] = <<>>
(* list k offers a good head: non-empty and its head is in the tail of no list *)
GoodHead(seqs, k) ==
  /\ seqs[k] # <<>>
  /\ \A j \in DOMAIN seqs : ~InTail(Head(seqs[k]), seqs[j])
Candidates(seqs) == {k \in DOMAIN seqs : GoodHead(seqs, k)}
(* remove x from the head of every list that starts with it *)
Strip(seqs, x) ==
  [k \in DOMAIN seqs |-> IF seqs[k] # <<>> /\ Head(seqs[k]) = x THEN Tail(seqs[k]) ELSE seqs[k]]

RECURSIVE MergeRec(_, _)
MergeRec(seqs, res) ==
  IF AllEmpty(seqs) THEN [ok |-> TRUE, mro |-> res]
  ELSE IF Candidates(seqs) = {} THEN [ok |-> FALSE, mro |-> res]
  ELSE LET x == Head(seqs[MinOf(Candidates(seqs))]) IN MergeRec(Strip(seqs, x), Append(res, x))

-----------------------------------------------------------------------------
(* One class statement, and a whole hierarchy *)

(* the bases type.__new__ sees: origins of the written spellings *)
EffBases(bs) == IF bs = <<>> THEN <<OBJ>> ELSE Origins(bs)
MroOf(L, b) == IF b = OBJ THEN <<OBJ>> ELSE IF b = GEN THEN <<GEN, OBJ>> ELSE L[b].mro
(* statement with written bases bs creates a generic class *)
GenericStmt(bs) == \E k \in DOMAIN bs : bs[k] = GEN \/ Sp(bs[k]) = 3
(* the lists handed to the merge for statement c with bases bs: the MRO of every base, then   *)
(* the list of bases itself                                                                   *)
MergeInput(L, bs) ==
  LET eb == EffBases(bs) IN [k \in 1 .. Len(eb) |-> MroOf(L, eb[k])] \o <<eb>>

ERRDUP == [st |-> "dup", mro |-> <<>>]
ERRORDER == [st |-> "order", mro |-> <<>>]

Statement(L, bs) ==
  LET c == Len(L) + 1 IN
  IF HasDup(EffBases(bs)) THEN ERRDUP
  ELSE LET m == MergeRec(MergeInput(L, bs), <<c>>) IN
       IF m.ok THEN [st |-> "ok", mro |-> m.mro] ELSE ERRORDER

RECURSIVE LinRec(_, _)
LinRec(H, L) == IF Len(L) = Len(H) THEN L ELSE LinRec(H, Append(L, Statement(L, H[Len(L) + 1])))
Lin(H) == LinRec(H, <<>>)

(* H is well formed w.r.t. its own linearisation: bases are earlier, successfully created;    *)
(* only generic classes are subscripted; Generic[T] is written last                           *)
WellFormed(H, L) ==
  /\ Len(L) = Len(H)
  /\ \A c \in DOMAIN H : \A k \in DOMAIN H[c] :
        LET b == H[c][k]
            o == Origin(b) IN
        \/ b = OBJ
        \/ b = GEN /\ k = Len(H[c])
        \/ /\ o \in 1 .. (c - 1) /\ L[o].st = "ok"
           /\ Sp(b) \in 0 .. 3
           /\ Sp(b) > 0 => GenericStmt(H[o])

-----------------------------------------------------------------------------
(* Declarative laws of C3 (what "agrees with the language" means, independent of the merge)   *)

RECURSIVE Ancestors(_, _)
Ancestors(H, c) ==   \* proper ancestors, OBJ included
  IF c = OBJ THEN {}
  ELSE IF c = GEN THEN {OBJ}
  ELSE LET eb == EffBases(H[c]) IN
       ToSet(eb) \cup UNION {Ancestors(H, eb[k]) : k \in DOMAIN eb}

(* precedence constraints that any legal linearisation of a statement with bases bs must      *)
(* respect: x before y whenever x precedes y in the MRO of a base or in the list of bases     *)
StrictBefore(L, bs) ==
  LET inp == MergeInput(L, bs) IN
  UNION {{<<inp[k][pq[1]], inp[k][pq[2]]>> :
            pq \in {x \in (DOMAIN inp[k]) \X (DOMAIN inp[k]) : x[1] < x[2]}} : k \in DOMAIN inp}
Compose(R, S) == {<<x[1][1], x[2][2]>> : x \in {ab \in R \X S : ab[1][2] = ab[2][1]}}
RECURSIVE TC(_)
TC(R) == LET R2 == R \cup Compose(R, R) IN IF R2 = R THEN R ELSE TC(R2)
Cyclic(R) == \E pr \in TC(R) : pr[1] = pr[2]

(* the laws for one successful statement c *)
LawsOk(H, L, c) ==
  LET m == L[c].mro
      eb == EffBases(H[c]) IN
  /\ m[1] = c /\ m[Len(m)] = OBJ
  /\ ~HasDup(m)
  /\ ToSet(m) = {c} \cup Ancestors(H, c)                           \* a permutation of all ancestors
  /\ \A k \in DOMAIN eb : SubSeqOf(MroOf(L, eb[k]), m)              \* monotone w.r.t. every parent
  /\ SubSeqOf(eb, m)                                               \* local precedence order

(* a statement fails exactly when a base repeats or the precedence constraints are cyclic     *)
LawErr(H, L, c) ==
  LET prefix == SubSeq(L, 1, c - 1) IN
  /\ (L[c].st = "dup") = HasDup(EffBases(H[c]))
  /\ (L[c].st = "order") = (~HasDup(EffBases(H[c])) /\ Cyclic(StrictBefore(prefix, H[c])))

Laws(H, L) ==
  \A c \in DOMAIN H : LawErr(H, L, c) /\ (L[c].st = "ok" => LawsOk(H, L, c))

(* first class in the MRO of c that belongs to the set D of definers of an attribute; 0 - none *)
FirstDefiner(m, D) ==
  IF \E k \in DOMAIN m : m[k] \in D /\ m[k] # OBJ
    THEN m[MinOf({k \in DOMAIN m : m[k] \in D /\ m[k] # OBJ})] ELSE 0

-----------------------------------------------------------------------------
(* Well-typedness of generic hierarchies.  Inst(H, c) = pairs <<g, a>>: class c inherits from  *)
(* the generic class g with g's type variable instantiated as a (the Sp codes: 0 unconstrained, *)
(* 1 int, 2 str, 3 the type variable of c itself).  A class is Clean when every generic        *)
(* ancestor is instantiated in ONE way only; `class D(IntBox, StrBox)` runs under CPython but   *)
(* is ill-typed (pytype reports invalid-annotation and treats the class as Any), so reads are   *)
(* judged through Clean classes only.  Class statements are judged always.                      *)
RECURSIVE Inst(_, _)
Inst(H, c) ==
  UNION {LET b == H[c][k]
             o == Origin(b) IN
         IF o \in {OBJ, GEN} THEN {}
         ELSE (IF GenericStmt(H[o]) THEN {<<o, Sp(b)>>} ELSE {})
              \cup {<<ga[1], IF ga[2] = 3 THEN Sp(b) ELSE ga[2]>> : ga \in Inst(H, o)}
         : k \in DOMAIN H[c]}
Clean(H, c) == \A p1, p2 \in Inst(H, c) : p1[1] = p2[1] => p1[2] = p2[2]

-----------------------------------------------------------------------------
(* Attribute histories.  Class dictionaries change after the class statement                  *)
(* (`K.tag = v`); a read must find the definition that is first in the MRO NOW.               *)
(* defs[c] = marker of the value `tag` currently has in the dictionary of class c, 0 = the    *)
(* dictionary of c has no `tag`.  The marker of a definition is the index of the program step *)
(* (class statement with `tag` in its body, or assignment) that made it.                      *)
DefinersNow(defs) == {k \in DOMAIN defs : defs[k] # 0}
ReadBy(m, defs) == FirstDefiner(m, DefinersNow(defs))                \* class that answers, 0: none
ReadExp(m, defs) == LET by == ReadBy(m, defs) IN IF by = 0 THEN 0 ELSE defs[by]

(* the same from the recorded history alone (independent of the state carried along):        *)
(* hist = sequence of steps [op, bases, def, c, m, exp, by]                                    *)
StmtOfStep(hist, u) == Cardinality({v \in 1 .. u : hist[v].op = "class"})
DefinesOn(hist, u, k) ==   \* step u puts `tag` into the dictionary of class k
  \/ hist[u].op = "class" /\ hist[u].def /\ StmtOfStep(hist, u) = k
  \/ hist[u].op = "assign" /\ hist[u].c = k
MarkerAt(hist, k, s) ==    \* marker of `tag` in the dictionary of class k just before step s
  LET U == {u \in 1 .. (s - 1) : DefinesOn(hist, u, k)} IN
  IF U = {} THEN 0 ELSE CHOOSE u \in U : \A v \in U : v <= u
=============================================================================

---------------------------- MODULE ExportStubs ----------------------------
(* Property C12, origin "stub text": hand-written stubs that reach the pickle through           *)
(* serialize_ast.SourceToExportableAst (parse_pickle / --pyi input, and PrepareForExport, which  *)
(* prints an inferred AST and re-reads it).  Such an AST is in a MIXED class-pointer state:      *)
(*   local    classes of the module itself          ClassType with .cls filled in               *)
(*   builtin  classes of builtins                   ClassType with .cls filled in               *)
(*   typing   classes of typing                     ClassType WITHOUT .cls                      *)
(*   late     classes of any other module           LateType                                    *)
(* (ASTs that went through the loader are fully resolved, NamedType ASTs hold no pointer).       *)
(* Canonical order is defined on the pointer-free declarations; Node.__lt__ sorts by the         *)
(* stringified fields, and the string of a parameter tuple shows the pointer state, so an order  *)
(* computed while pointers are mixed can differ from the canonical one exactly when two union    *)
(* members share class and base and their first differing parameter is a pointer-carrying class  *)
(* in one and a pointer-free class in the other, with names ordered the other way round (a local *)
(* class of a module whose name sorts after "typing").                                           *)
(*                                                                                            *)
(* The module enumerates the whole product  module name x holder x type  for the types built     *)
(* from that shape: unions of two (and three) members with the SAME constructor over leaves of   *)
(* every pointer kind, and literal types whose value holds a class reference (enum members).     *)
(* A stub is exported in StubGen's term format plus the module name; the driver builds the AST   *)
(* (stubgen_terms.stub_ast), prints it and reads the text back under that module name.           *)
EXTENDS PytdTerms, Json

CONSTANTS ModNames,    \* subset of the names in AllMods
          Holders,     \* where the type sits: subset of {"param", "ret", "const", "attr", "alias"}
          Unary,       \* unary constructors, e.g. {"list", "typing.Sequence"}
          Binary,      \* binary constructors, e.g. {"typing.Mapping", "tuple", "callable"}
          Leaves1,     \* names usable as the (first) distinguishing parameter
          Leaves2,     \* names usable as the second parameter of a binary constructor
          Triples      \* BOOLEAN: also unions of three unary members

VARIABLE stub

(* module names with their position relative to the two modules whose classes keep a fixed       *)
(* pointer state (the driver confirms these claims with Python's string order)                   *)
AllMods == {[n |-> "app",       pos |-> "before-builtins"],
            [n |-> "pkg.mod",   pos |-> "between"],
            [n |-> "typing_x",  pos |-> "after-typing"],
            [n |-> "utils",     pos |-> "after-typing"],
            [n |-> "zoo.views", pos |-> "after-typing"]}
Mods == {m \in AllMods : m.n \in ModNames}

LocalNames  == {"A", "B"}
TypingNames == {"typing.Hashable", "typing.Sized"}
LateNames   == {"collections.OrderedDict"}
PtrKind(n) ==
  CASE n \in LocalNames  -> "local"
    [] n \in TypingNames -> "typing"
    [] n \in LateNames   -> "late"
    [] n = "Any"         -> "none"
    [] OTHER             -> "builtin"
Leaf(n) == IF n = "Any" THEN AnyT ELSE Cls(n)
HoldsPointer(n) == PtrKind(n) \in {"local", "builtin"}     \* ClassType with .cls
PointerFree(n)  == PtrKind(n) = "typing"                    \* ClassType without .cls

Mk(c, args) ==
  CASE c = "tuple"    -> <<"tuple", "", args>>
    [] c = "callable" -> <<"callable", "", args>>
    [] OTHER          -> Gen(c, args)

(* parameter name vectors *)
Vec1 == {<<p>> : p \in Leaves1}
Vec2 == {<<p, q>> : p \in Leaves1, q \in Leaves2}
LeafArgs(v) == [k \in DOMAIN v |-> Leaf(v[k])]

(* a type under test: [t |-> type term, vs |-> the members' parameter name vectors, enum |-> uses E] *)
Pairs ==
  {[t |-> Union(<<Mk(c, LeafArgs(v)), Mk(c, LeafArgs(w))>>), vs |-> <<v, w>>, enum |-> FALSE]
     : c \in Unary, v \in Vec1, w \in Vec1}
  \cup {[t |-> Union(<<Mk(c, LeafArgs(v)), Mk(c, LeafArgs(w))>>), vs |-> <<v, w>>, enum |-> FALSE]
     : c \in Binary, v \in Vec2, w \in Vec2}
Threes ==
  IF Triples
    THEN {[t |-> Union(<<Mk(c, LeafArgs(u)), Mk(c, LeafArgs(v)), Mk(c, LeafArgs(w))>>), vs |-> <<u, v, w>>, enum |-> FALSE]
            : c \in Unary, u \in Vec1, v \in Vec1, w \in Vec1}
    ELSE {}
EX == Lit("enum:E.X")
EY == Lit("enum:E.Y")
LitTypes ==
  {[t |-> x, vs |-> <<>>, enum |-> TRUE] :
     x \in {EX, Gen("list", <<EX>>), Union(<<EX, EY>>), Union(<<EY, EX>>), Union(<<EX, Cls("int")>>),
            Union(<<EX, Lit("int:1")>>), Union(<<Gen("list", <<EX>>), Gen("list", <<EY>>)>>),
            Mk("tuple", <<EX, Cls("A")>>), Union(<<Mk("callable", <<EX, Cls("int")>>), Mk("callable", <<EY, Cls("int")>>)>>)}}
Distinct(x) == \A a, b \in DOMAIN x.vs : a # b => x.vs[a] # x.vs[b]
Types == {x \in Pairs \cup Threes : Distinct(x)} \cup LitTypes

(* could a sort in the mixed pointer state order two members differently from the canonical     *)
(* (pointer-free) sort?  first differing parameter: pointer-carrying LOCAL class in one member,   *)
(* pointer-free class in the other, and the module's name after "typing"                         *)
FirstDiff(v, w) == CHOOSE k \in DOMAIN v : v[k] # w[k] /\ \A l \in 1 .. k - 1 : v[l] = w[l]
SensitivePair(v, w) ==
  LET k == FirstDiff(v, w) IN
    \/ PtrKind(v[k]) = "local" /\ PointerFree(w[k])
    \/ PtrKind(w[k]) = "local" /\ PointerFree(v[k])
Sensitive(m, x) ==
  /\ m.pos = "after-typing"
  /\ \E a, b \in DOMAIN x.vs : a # b /\ SensitivePair(x.vs[a], x.vs[b])
(* members whose first differing parameter mixes pointer states at all (whatever the names) *)
MixedPair(v, w) ==
  LET k == FirstDiff(v, w) IN
    (HoldsPointer(v[k]) /\ PointerFree(w[k])) \/ (HoldsPointer(w[k]) /\ PointerFree(v[k]))
Mixed(x) == \E a, b \in DOMAIN x.vs : a # b /\ MixedPair(x.vs[a], x.vs[b])

(* ---- declarations, in StubGen's export format ---------------------------------------------- *)
ClassDecl(n, bases, body) ==
  [k |-> "class", n |-> n, bases |-> bases, meta |-> <<>>, slots |-> <<>>, tps |-> <<>>, body |-> body]
Const(n, t) == [k |-> "const", n |-> n, t |-> t, v |-> FALSE]
ClassA == ClassDecl("A", <<>>, <<>>)
EnumE == ClassDecl("E", <<Cls("enum.Enum")>>, <<Const("X", Cls("int")), Const("Y", Cls("int"))>>)
Sig(ps, r) == [ps |-> ps, star |-> <<>>, kw |-> <<>>, r |-> r]
Func(n, sig) == [k |-> "func", n |-> n, kind |-> "method", flags |-> <<>>, sigs |-> <<sig>>]
Holder(h, t) ==
  CASE h = "param" -> Func("f", Sig(<<[n |-> "a", t |-> t, pk |-> "reg", o |-> FALSE]>>, NoneT))
    [] h = "ret"   -> Func("f", Sig(<<>>, t))
    [] h = "const" -> Const("x", t)
    [] h = "attr"  -> ClassDecl("B", <<>>, <<Const("x", t)>>)
    [] h = "alias" -> [k |-> "alias", n |-> "X", t |-> t]

Decls(h, x) == (IF x.enum THEN <<ClassA, EnumE>> ELSE <<ClassA>>) \o <<Holder(h, x.t)>>

Stubs ==
  {[mod |-> m.n, pos |-> m.pos, holder |-> h, sensitive |-> Sensitive(m, x), mixed |-> Mixed(x),
    enum |-> x.enum, decls |-> Decls(h, x)] : m \in Mods, h \in Holders, x \in Types}

Init == stub \in Stubs
Next == UNCHANGED stub
Spec == Init /\ [][Next]_stub

(* ---- what TLC checks on the enumeration ----------------------------------------------------- *)
RECURSIVE TermWF(_)
TermWF(t) ==
  /\ \A k \in DOMAIN Args(t) : TermWF(Args(t)[k])
  /\ Tag(t) = "union" =>
       /\ Len(Args(t)) >= 2
       /\ \A j, k \in DOMAIN Args(t) : j # k => ~SpecEq(Args(t)[j], Args(t)[k])
       /\ \A k \in DOMAIN Args(t) : Tag(Args(t)[k]) \notin {"union", "any", "nothing"}
HolderType(s) ==
  LET d == s.decls[Len(s.decls)] IN
    CASE d.k = "func"  -> IF d.sigs[1].ps = <<>> THEN d.sigs[1].r ELSE d.sigs[1].ps[1].t
      [] d.k = "class" -> d.body[1].t
      [] OTHER         -> d.t
WellFormed == TermWF(HolderType(stub))
(* the flags are consistent: sensitive implies mixed; literal stubs declare the enum *)
FlagsOK ==
  /\ stub.sensitive => stub.mixed /\ stub.pos = "after-typing"
  /\ stub.enum <=> HasTag(HolderType(stub), {"lit"})
ExportInv == PrintT(<<"CASE", ToJson(stub)>>)
=============================================================================

----------------------------- MODULE PytdTypes -----------------------------
(* The PEP 484 type language pytype enforces and infers, and its meaning.                      *)
(*                                                                                            *)
(* Type terms are uniform triples <<tag, name, args>>:                                        *)
(*   <<"any","",<<>>>>            typing.Any                                                  *)
(*   <<"cls", c, <<>>>>           class c (builtin scalar, NoneType, object, or user class)   *)
(*   <<"union","",<<t1,..>>>>     Union / Optional                                            *)
(*   <<"gen", b, <<t..>>>>        b in list set frozenset dict Sequence Iterable Mapping       *)
(*                                tuplevar (= Tuple[T, ...])                                   *)
(*   <<"tuple","",<<t1,..>>>>     fixed-length tuple                                          *)
(*   <<"type","",<<t>>>>          Type[C]                                                      *)
(*   <<"callable","",<<>>>>       Callable (any signature)                                    *)
(*   <<"callsig","",<<A1,..,An,R>>>>  Callable[[A1..An], R] (the last argument is the result)  *)
(* Value terms are pairs <<class name, parts>>: parts = element value terms (list, set,       *)
(* frozenset, tuple), <<k, v>> pairs (dict), <<<<class name, <<>>>>>> for class objects ("$class"),     *)
(* <<>> otherwise ("$fn" = a function / lambda / builtin function).                           *)
(* <<"$deep", <<>>>> stands for a part of a recorded value that was cut off (unknown), see AdmitsG.   *)
(* A function VALUE whose signature is known is <<"$def", sig>> with sig a record                *)
(*   [form, mand, opt, star, kwreq, kwdef, kwargs]: form "def" | "lambda" | "method" (bound),     *)
(*   mand/opt = number of positional parameters without/with default, star = has *args,         *)
(*   kwreq/kwdef = number of keyword-only parameters without/with default, kwargs = has **kw;   *)
(*   every parameter is an int and the result is an int (see CanCall / "callsig" below).        *)
EXTENDS Naturals, Sequences, FiniteSets, TLC

(* Class hierarchy: user classes B < A, C; builtins.  Mro[c] = linearisation of c. *)
Mro == [int |-> <<"int", "object">>, bool |-> <<"bool", "int", "object">>,
        float |-> <<"float", "object">>, complex |-> <<"complex", "object">>,
        str |-> <<"str", "object">>, bytes |-> <<"bytes", "object">>,
        NoneType |-> <<"NoneType", "object">>, object |-> <<"object">>,
        list |-> <<"list", "object">>, tuple |-> <<"tuple", "object">>,
        set |-> <<"set", "object">>, frozenset |-> <<"frozenset", "object">>,
        dict |-> <<"dict", "object">>,
        A |-> <<"A", "object">>, B |-> <<"B", "A", "object">>, C |-> <<"C", "object">>,
        D |-> <<"D", "B", "A", "C", "object">>]

SeqToSet(s) == {s[x] : x \in DOMAIN s}

(* nominal subclassing in a hierarchy H (class name |-> MRO as a sequence of class names);       *)
(* a class H does not know is only a subclass of itself and of object                             *)
IsSubH(H, c, d) ==
  \/ c = d \/ d = "object"
  \/ c \in DOMAIN H /\ d \in SeqToSet(H[c])

(* PEP 484 numeric promotions on top of nominal subclassing: int -> float -> complex *)
IsSubPH(H, c, d) ==
  \/ IsSubH(H, c, d)
  \/ d = "float" /\ IsSubH(H, c, "int")
  \/ d = "complex" /\ (IsSubH(H, c, "int") \/ IsSubH(H, c, "float"))

IsSub(c, d) == c \in DOMAIN Mro /\ IsSubH(Mro, c, d)
IsSubP(c, d) == IsSubPH(Mro, c, d)

VStr == <<"str", <<>>>>
VInt == <<"int", <<>>>>

(* elements a value yields when iterated, as value terms; <<>> if not iterable here *)
IterElems(v) ==
  CASE v[1] \in {"list", "tuple", "set", "frozenset"} -> v[2]
    [] v[1] = "dict" -> [k \in DOMAIN v[2] |-> v[2][k][1]]
    [] v[1] = "str" -> <<VStr>>      \* iterating a str yields str
    [] v[1] = "bytes" -> <<VInt>>    \* iterating bytes yields int
    [] OTHER -> <<>>

IsIterable(v) == v[1] \in {"list", "tuple", "set", "frozenset", "dict", "str", "bytes"}
IsSequence(v) == v[1] \in {"list", "tuple", "str", "bytes"}
KnownShape(v) == v[1] \in {"list", "tuple", "set", "frozenset", "dict", "str", "bytes", "int",
                           "bool", "float", "complex", "NoneType", "$class", "$fn", "$def"}

(* ---- function values against Callable[[A1..An], R] ------------------------------------------ *)
(* A function inhabits Callable[[A1..An], R] iff it can be called with exactly n positional      *)
(* arguments (of types A1..An) and then returns an R.  Calling with n positionals binds iff      *)
(*   mand <= n  (no positional parameter without default is left over)                            *)
(*   n <= mand + opt  or the function has *args                                                   *)
(*   kwreq = 0  (a keyword-only parameter without default can never be supplied positionally).    *)
(* Keyword-only parameters WITH a default and **kwargs are irrelevant.  (Confirmed against       *)
(* CPython by calling every function value of the grammar with every n, harness/c02.py.)          *)
(* Documented deviations of pytype's matcher (Signature.mandatory_param_count /                   *)
(* maximum_param_count count positional and keyword-only parameters alike):                       *)
(*   "kwonlypos"  keyword-only parameters are counted like positional ones: those without        *)
(*                default raise the minimum, all of them raise the maximum                        *)
(*   "kwargsvar"  **kwargs lifts the maximum like *args does                                      *)
CanCallD(s, n, D) ==
  LET kp == "kwonlypos" \in D
      lo == s.mand + (IF kp THEN s.kwreq ELSE 0)
      hi == s.mand + s.opt + (IF kp THEN s.kwreq + s.kwdef ELSE 0)
      unbounded == s.star \/ ("kwargsvar" \in D /\ s.kwargs)
  IN lo <= n /\ (unbounded \/ n <= hi) /\ (kp \/ s.kwreq = 0)
CanCall(s, n) == CanCallD(s, n, {})
(* "$fn" is rendered as the identity lambda of one positional parameter *)
FnSig == [form |-> "lambda", mand |-> 1, opt |-> 0, star |-> FALSE, kwreq |-> 0, kwdef |-> 0,
          kwargs |-> FALSE]

(* AdmitsG(H, S, t, v, D): membership of value v in type t.                                        *)
(*   H  class hierarchy (see IsSubH)                                                               *)
(*   S  soundness reading (C01, C06): protocol types admit values whose shape the value grammar   *)
(*      does not describe (never an alarm about something the spec does not understand)           *)
(*   D  set of DOCUMENTED DEVIATIONS of pytype's matcher from PEP 484 (D = {} is the meaning the  *)
(*      properties refer to):                                                                      *)
(*   "hetero"   a list/set/frozenset/dict literal with >= 2 elements is accepted when SOME        *)
(*              element (resp. key, value) is admitted (the matcher's leniency for multi-binding  *)
(*              type parameters) instead of ALL                                                   *)
(*   "nonebool" None is accepted where bool is expected (legacy NoneType -> bool compatibility)   *)
(*   "strseq"   a str is NOT accepted as Sequence[str] / Iterable[str] (deliberate guard)         *)
(* The deviations are used only to attribute a disagreement to a known root cause; a              *)
(* disagreement no single documented deviation explains is reported in full.                      *)
ElemsOK(P(_), es, lenient) ==
  IF lenient /\ Len(es) >= 2 THEN \E k \in DOMAIN es : P(es[k]) ELSE \A k \in DOMAIN es : P(es[k])

RECURSIVE AdmitsG(_, _, _, _, _)
AdmitsG(H, S, t, v, D) ==
  LET len == "hetero" \in D /\ v[1] \in {"list", "set", "frozenset", "dict"}
      A1(e) == AdmitsG(H, S, t[3][1], e, D)
      K1(p) == AdmitsG(H, S, t[3][1], p[1], D)
      V2(p) == AdmitsG(H, S, t[3][2], p[2], D) IN
  (* a value the recorder cut off (<<"$deep", <<>>>>, nesting beyond its bound) is UNKNOWN: in the     *)
  (* soundness reading every type but the empty one admits it (never an alarm about something that  *)
  (* was not observed); the exactness reading never meets it                                         *)
  IF v[1] = "$deep" /\ t[1] \notin {"any", "nothing"} THEN S ELSE
  CASE t[1] = "any" -> TRUE
    [] t[1] = "nothing" -> FALSE
    [] t[1] = "cls" ->
         IF v[1] = "$class" THEN t[2] \in {"object", "type"}
         ELSE IF v[1] \in {"$fn", "$def"} THEN t[2] \in {"object", "function", "Callable"}
         ELSE IsSubPH(H, v[1], t[2]) \/ ("nonebool" \in D /\ t[2] = "bool" /\ v[1] = "NoneType")
    [] t[1] = "union" -> \E k \in DOMAIN t[3] : AdmitsG(H, S, t[3][k], v, D)
    [] t[1] = "gen" ->
         CASE t[2] \in {"list", "set", "frozenset"} -> v[1] = t[2] /\ ElemsOK(A1, v[2], len)
           [] t[2] = "tuplevar" -> v[1] = "tuple" /\ ElemsOK(A1, v[2], FALSE)
           [] t[2] = "dict" ->
                v[1] = "dict" /\ ElemsOK(K1, v[2], len) /\ ElemsOK(V2, v[2], len)
           [] t[2] = "Mapping" ->
                \/ S /\ ~KnownShape(v)
                \/ v[1] = "dict" /\ ElemsOK(K1, v[2], len) /\ ElemsOK(V2, v[2], len)
           [] t[2] = "Sequence" ->
                \/ S /\ ~KnownShape(v)
                \/ /\ IsSequence(v) /\ ElemsOK(A1, IterElems(v), len)
                   /\ ~("strseq" \in D /\ v[1] = "str" /\ t[3][1] = <<"cls", "str", <<>>>>)
           [] t[2] = "Iterable" ->
                \/ S /\ ~KnownShape(v)
                \/ /\ IsIterable(v) /\ ElemsOK(A1, IterElems(v), len)
                   /\ ~("strseq" \in D /\ v[1] = "str" /\ t[3][1] = <<"cls", "str", <<>>>>)
           [] OTHER -> TRUE
    [] t[1] = "tuple" ->
         v[1] = "tuple" /\ Len(v[2]) = Len(t[3])
         /\ \A k \in DOMAIN t[3] : AdmitsG(H, S, t[3][k], v[2][k], D)
    [] t[1] = "type" ->
         v[1] = "$class" /\ (t[3][1][1] # "cls" \/ IsSubH(H, v[2][1][1], t[3][1][2]))
    [] t[1] = "callable" -> v[1] \in {"$fn", "$def", "$class"} \/ (S /\ ~KnownShape(v))
    [] t[1] = "callsig" ->       \* all Ai and R are int in the understood fragment (see Understood)
         LET n == Len(t[3]) - 1 IN
         CASE v[1] = "$def" -> CanCallD(v[2], n, D)
           [] v[1] = "$fn" -> S \/ CanCallD(FnSig, n, D)
           [] v[1] = "$class" -> TRUE     \* constructor signatures: outside the language (Judgeable)
           [] OTHER -> S /\ ~KnownShape(v)
    [] OTHER -> TRUE          \* forms outside the language admit everything (never an alarm)

AdmitsD(t, v, D) == AdmitsG(Mro, FALSE, t, v, D)
Admits(t, v) == AdmitsG(Mro, FALSE, t, v, {})

(* forms the exactness reading (C02) understands *)
RECURSIVE Understood(_)
Understood(t) ==
  /\ t[1] \in {"any", "cls", "union", "gen", "tuple", "type", "callable", "callsig"}
  /\ (t[1] = "callsig" => Len(t[3]) >= 1 /\ \A k \in DOMAIN t[3] : t[3][k] = <<"cls", "int", <<>>>>)
  /\ (t[1] = "gen" => t[2] \in {"list", "set", "frozenset", "tuplevar", "dict", "Mapping",
                                "Sequence", "Iterable"})
  /\ \A k \in DOMAIN t[3] : Understood(t[3][k])

(* pairs the exactness reading judges: whether a CLASS object inhabits Callable[[A1..An], R]    *)
(* depends on constructor signatures, which value terms do not carry                             *)
RECURSIVE HasCallsig(_)
HasCallsig(t) == t[1] = "callsig" \/ \E k \in DOMAIN t[3] : HasCallsig(t[3][k])
Judgeable(t, v) == ~(v[1] = "$class" /\ HasCallsig(t))
=============================================================================

---------------------------- MODULE TypegraphOps ----------------------------
(* Declarative meaning of the typegraph solver's answers (property C07), as operators over a  *)
(* graph record g = [nn, edges, cond, bvar, origins]:                                         *)
(*   nn       number of CFG nodes, ids 1..nn (the code uses 0..nn-1)                          *)
(*   edges    set of <<a, b>>: forward CFG edge a -> b                                        *)
(*   cond     sequence, cond[n] = binding that is the node's condition, 0 = none              *)
(*   bvar     sequence, bvar[b]  = variable of binding b                                      *)
(*   origins  set of [b, n, ss]: binding b has an origin at node n with source set ss         *)
(* Used on the state of Typegraph.tla and on graphs recorded from the real code alike.        *)
EXTENDS Naturals, FiniteSets, Sequences, TLC

-----------------------------------------------------------------------------
(* Operators over a graph record g (used on the state and on recorded graphs alike) *)

GNodes(g) == 1 .. g.nn
GBind(g)  == 1 .. Len(g.bvar)
Pred(g, n) == {e[1] : e \in {x \in g.edges : x[2] = n}}
OriginsAt(g, b, n) == {o \in g.origins : o.b = b /\ o.n = n}
VarNodes(g, v) == {o.n : o \in {x \in g.origins : g.bvar[x.b] = v}}
Blocked(g, S) == UNION {VarNodes(g, g.bvar[x]) : x \in S}
Conflict(g, S) == \E a, b \in S : a # b /\ g.bvar[a] = g.bvar[b]
MinOf(S) == CHOOSE x \in S : \A y \in S : x <= y

RECURSIVE Closure(_)
Closure(S) ==
  LET U == S \cup {<<p[1][1], p[2][2]>> : p \in {q \in S \X S : q[1][2] = q[2][1]}} IN
  IF U = S THEN S ELSE Closure(U)

PathRel(g) == Closure(g.edges \cup {<<n, n>> : n \in GNodes(g)})   \* reflexive-transitive
Acyclic(g) == LET R == Closure(g.edges) IN \A n \in GNodes(g) : <<n, n>> \notin R
HasCond(g) == \E n \in GNodes(g) : g.cond[n] # 0

(* All ways to discharge, at node n, the goals that have an origin at n: each such goal is    *)
(* replaced by one source set of that origin, recursively (solver.cc remove_finished_goals).  *)
(* Result records: rem = goals discharged here, new = goals still open.                      *)
RECURSIVE Res(_, _, _, _, _, _)
Res(g, n, todo, seen, rem, new) ==
  IF todo = {} THEN {[rem |-> rem, new |-> new]}
  ELSE LET x == MinOf(todo)
           rest == todo \ {x} IN
       IF x \in seen THEN Res(g, n, rest, seen, rem, new)
       ELSE IF OriginsAt(g, x, n) = {}
              THEN Res(g, n, rest, seen \cup {x}, rem, new \cup {x})
              ELSE UNION {Res(g, n, rest \cup o.ss, seen \cup {x}, rem \cup {x}, new)
                            : o \in OriginsAt(g, x, n)}

Goals(g, n, G, strict) == IF strict /\ g.cond[n] # 0 THEN G \cup {g.cond[n]} ELSE G

(* One backward step of an explaining path from state <<n, G>> into the set S of states       *)
(* already known to be explainable.                                                           *)
StepOK(g, n, G, strict, S) ==
  \E r \in Res(g, n, Goals(g, n, G, strict), {}, {}, {}) :
     /\ ~Conflict(g, r.rem)                      \* no two bindings of one variable together
     /\ \/ r.new = {}
        \/ /\ n \notin Blocked(g, r.new)         \* may not leave a node that re-binds a goal variable
           /\ \E p \in Pred(g, n) : <<p, r.new>> \in S

AllStates(g) == GNodes(g) \X SUBSET GBind(g)

RECURSIVE Fix(_, _, _)
Fix(g, strict, S) ==
  LET T == {s \in AllStates(g) : s \in S \/ StepOK(g, s[1], s[2], strict, S)} IN
  IF T = S THEN S ELSE Fix(g, strict, T)

(* Explainable states: least fixed point (on acyclic graphs = structural recursion).          *)
(* strict = FALSE ignores node conditions (C07 clause 1 is stated for unconditioned graphs);   *)
(* strict = TRUE adds cond[n] to the goals at EVERY node of the path (the strongest reading    *)
(* of "has an explaining path" when conditions exist, C07 clause 2).                           *)
Explainable(g, strict) == Fix(g, strict, {})

(* C07 clause 3: every goal individually reachable (one of its origins lies backwards of n)   *)
GoalReachable(g, R, n, b) == \E o \in g.origins : o.b = b /\ <<o.n, n>> \in R
AllReachable(g, R, n, G) == \A b \in G : GoalReachable(g, R, n, b)

-----------------------------------------------------------------------------
(* Design-level sanity of the declarative definition (checked by TLC on every graph state):   *)
(* the clauses of C07 are mutually consistent.                                                *)
RefSubsetClosed(S) == \A s \in S : \A H \in SUBSET s[2] : <<s[1], H>> \in S
RefImpliesReach(g, S) ==
  LET R == PathRel(g) IN \A s \in S : AllReachable(g, R, s[1], s[2])

=============================================================================

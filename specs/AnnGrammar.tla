----------------------------- MODULE AnnGrammar -----------------------------
(* Depth-bounded grammars of annotations (type terms) and ground values (value terms) for C02, *)
(* with the enforcement sites as actions: the state walks through every annotation; for each   *)
(* annotation the laws that keep the oracle honest are checked against every value.            *)
EXTENDS PytdTypes, Json, SequencesExt

CONSTANT Export   \* BOOLEAN: print the grammars as one JSON case

Cls(c) == <<"cls", c, <<>>>>
TAny == <<"any", "", <<>>>>
TNone == Cls("NoneType")
U(a, b) == <<"union", "", <<a, b>>>>
Gen(b, args) == <<"gen", b, args>>
Tup(args) == <<"tuple", "", args>>

Scalars == {TAny} \cup {Cls(c) : c \in {"object", "int", "float", "complex", "bool", "str",
                                        "bytes", "NoneType", "A", "B", "C"}}
Inner == {TAny} \cup {Cls(c) : c \in {"object", "int", "float", "bool", "str", "A", "B"}}
Keys == {Cls("str"), Cls("int")}

Depth1 ==
       {Gen(b, <<t>>) : b \in {"list", "set", "frozenset", "tuplevar", "Sequence", "Iterable"},
                        t \in Inner}
  \cup {Gen(b, <<k, t>>) : b \in {"dict", "Mapping"}, k \in Keys, t \in Inner}
  \cup {Tup(<<t>>) : t \in Inner}
  \cup {Tup(<<t, u>>) : t \in {Cls("int"), Cls("str"), Cls("A")}, u \in Inner}
  \cup {U(t, TNone) : t \in Inner \ {TAny, Cls("object")}}
  \cup {U(t, u) : t \in {Cls("int"), Cls("str"), Cls("B")}, u \in {Cls("float"), Cls("bytes"), Cls("C"), Cls("bool")}}
  \cup {<<"type", "", <<t>>>> : t \in {TAny, Cls("A"), Cls("B"), Cls("C"), Cls("int")}}
  \cup {<<"callable", "", <<>>>>}

Mid == {Gen("list", <<Cls("int")>>), Gen("list", <<Cls("str")>>), Gen("list", <<Cls("A")>>),
        Gen("set", <<Cls("int")>>), Gen("tuplevar", <<Cls("int")>>),
        Tup(<<Cls("int"), Cls("str")>>), U(Cls("int"), TNone), U(Cls("A"), TNone),
        Gen("dict", <<Cls("str"), Cls("int")>>), Gen("Sequence", <<Cls("float")>>)}

Depth2 ==
       {Gen(b, <<t>>) : b \in {"list", "Sequence", "Iterable", "tuplevar"}, t \in Mid}
  \cup {Gen("dict", <<Cls("str"), t>>) : t \in Mid}
  \cup {Gen("Mapping", <<Cls("str"), t>>) : t \in Mid}
  \cup {Tup(<<Cls("int"), t>>) : t \in Mid}
  \cup {U(t, TNone) : t \in Mid \ {U(Cls("int"), TNone), U(Cls("A"), TNone)}}
  \cup {U(Cls("str"), t) : t \in Mid}

Anns == Scalars \cup Depth1 \cup Depth2

(* ---- values ---- *)
V(c) == <<c, <<>>>>
ScalarVals == {V(c) : c \in {"int", "bool", "float", "complex", "str", "bytes", "NoneType",
                             "A", "B", "C"}}
ClassVals == {<<"$class", <<V(c)>>>> : c \in {"A", "B", "C", "int", "str"}}
FnVal == <<"$fn", <<>>>>
Elem == {V("int"), V("str"), V("float"), V("B"), V("NoneType")}
HashElem == {V("int"), V("str")}

Seqs1 == {<<>>} \cup {<<e>> : e \in Elem} \cup
         {<<e, f>> : e \in {V("int"), V("B")}, f \in {V("int"), V("str"), V("float"), V("A"), V("NoneType")}}
Vals1 ==
       {<<"list", s>> : s \in Seqs1}
  \cup {<<"tuple", s>> : s \in Seqs1}
  \cup {<<c, s>> : c \in {"set", "frozenset"},
                   s \in {<<>>, <<V("int")>>, <<V("str")>>, <<V("int"), V("str")>>}}
  \cup {<<"dict", s>> : s \in {<<>>} \cup {<<<<k, e>>>> : k \in HashElem, e \in Elem}
                               \cup {<<<<V("int"), V("int")>>, <<V("str"), V("str")>>>>}}

MidVals == {<<"list", <<V("int")>>>>, <<"list", <<V("str")>>>>, <<"list", <<>>>>,
            <<"tuple", <<V("int"), V("str")>>>>, <<"tuple", <<V("int")>>>>, V("int"), V("NoneType"),
            <<"dict", <<<<V("str"), V("int")>>>>>>, <<"set", <<V("int")>>>>}
Vals2 ==
       {<<"list", <<m>>>> : m \in MidVals}
  \cup {<<"tuple", <<V("int"), m>>>> : m \in MidVals}
  \cup {<<"dict", <<<<V("str"), m>>>>>> : m \in MidVals}
  \cup {<<"list", <<m, n>>>> : m \in {<<"list", <<V("int")>>>>}, n \in {<<"list", <<V("str")>>>>, V("NoneType")}}

Vals == ScalarVals \cup ClassVals \cup {FnVal} \cup Vals1 \cup Vals2

Sites == {"arg", "ret", "assign"}

-----------------------------------------------------------------------------
(* The walk: one state per annotation; the three enforcement sites are the actions; the        *)
(* post-state carries what the specification expects pytype to report.                         *)
VARIABLES k, site, expect
AnnSeq == SetToSeq(Anns)

Init == k = 1 /\ site = "arg" /\ expect = {v \in Vals : ~Admits(AnnSeq[1], v)}
Enforce(s) == /\ site' = s
              /\ UNCHANGED k
              /\ expect' = {v \in Vals : ~Admits(AnnSeq[k], v)}
NextAnn == /\ k < Cardinality(Anns)
           /\ k' = k + 1 /\ site' = "arg"
           /\ expect' = {v \in Vals : ~Admits(AnnSeq[k + 1], v)}
Next == (\E s \in Sites : s # site /\ Enforce(s)) \/ NextAnn
Spec == Init /\ [][Next]_<<k, site, expect>>

(* laws that keep the oracle honest *)
Laws ==
  LET t == AnnSeq[k] IN
  /\ Understood(t)
  /\ \A v \in Vals : Admits(TAny, v) /\ Admits(Cls("object"), v)
  /\ \A v \in Vals : Admits(t, v) => Admits(U(t, TNone), v) /\ Admits(U(Cls("C"), t), v)
  /\ \A v \in Vals : Admits(U(t, TNone), v) <=> (Admits(t, v) \/ v = V("NoneType"))
  /\ (t[1] = "cls" /\ t[2] = "int") => \A v \in Vals : Admits(t, v) => Admits(Cls("float"), v)
  /\ (t[1] = "gen" /\ t[2] = "list") => \A v \in Vals : Admits(t, v) => Admits(Gen("Sequence", t[3]), v)
  /\ (t[1] = "gen" /\ t[2] = "Sequence") => \A v \in Vals : Admits(t, v) => Admits(Gen("Iterable", t[3]), v)

(* vacuity: the verdict is non-trivial for (almost) every annotation *)
NonTrivial == LET t == AnnSeq[k] IN
  (t # TAny /\ t # Cls("object")) => expect # {}

ExportInv ==
  (Export /\ k = 1 /\ site = "arg") =>
     PrintT(<<"CASE", ToJson([anns |-> Anns, vals |-> Vals])>>)
=============================================================================

----------------------------- MODULE AnnGrammar -----------------------------
(* Depth-bounded grammars of annotations (type terms) and ground values (value terms) for C02, *)
(* with the enforcement sites as actions: the state walks through every annotation; for each   *)
(* annotation the laws that keep the oracle honest are checked against every value.            *)
EXTENDS PytdTypes, Json, SequencesExt

CONSTANT Export   \* BOOLEAN: print the grammars as one JSON case

Cls(c) == <<"cls", c, <<>>>>
TAny == <<"any", "", <<>>>>
TNone == Cls("NoneType")
U(a, b) == <<"union", "", <<a, b>>>>
Gen(b, args) == <<"gen", b, args>>
Tup(args) == <<"tuple", "", args>>

Scalars == {TAny} \cup {Cls(c) : c \in {"object", "int", "float", "complex", "bool", "str",
                                        "bytes", "NoneType", "A", "B", "C"}}
Inner == {TAny} \cup {Cls(c) : c \in {"object", "int", "float", "bool", "str", "A", "B"}}
Keys == {Cls("str"), Cls("int")}

Depth1 ==
       {Gen(b, <<t>>) : b \in {"list", "set", "frozenset", "tuplevar", "Sequence", "Iterable"},
                        t \in Inner}
  \cup {Gen(b, <<k, t>>) : b \in {"dict", "Mapping"}, k \in Keys, t \in Inner}
  \cup {Tup(<<t>>) : t \in Inner}
  \cup {Tup(<<t, u>>) : t \in {Cls("int"), Cls("str"), Cls("A")}, u \in Inner}
  \cup {U(t, TNone) : t \in Inner \ {TAny, Cls("object")}}
  \cup {U(t, u) : t \in {Cls("int"), Cls("str"), Cls("B")}, u \in {Cls("float"), Cls("bytes"), Cls("C"), Cls("bool")}}
  \cup {<<"type", "", <<t>>>> : t \in {TAny, Cls("A"), Cls("B"), Cls("C"), Cls("int")}}
  \cup {<<"callable", "", <<>>>>}

Mid == {Gen("list", <<Cls("int")>>), Gen("list", <<Cls("str")>>), Gen("list", <<Cls("A")>>),
        Gen("set", <<Cls("int")>>), Gen("tuplevar", <<Cls("int")>>),
        Tup(<<Cls("int"), Cls("str")>>), U(Cls("int"), TNone), U(Cls("A"), TNone),
        Gen("dict", <<Cls("str"), Cls("int")>>), Gen("Sequence", <<Cls("float")>>)}

Depth2 ==
       {Gen(b, <<t>>) : b \in {"list", "Sequence", "Iterable", "tuplevar"}, t \in Mid}
  \cup {Gen("dict", <<Cls("str"), t>>) : t \in Mid}
  \cup {Gen("Mapping", <<Cls("str"), t>>) : t \in Mid}
  \cup {Tup(<<Cls("int"), t>>) : t \in Mid}
  \cup {U(t, TNone) : t \in Mid \ {U(Cls("int"), TNone), U(Cls("A"), TNone)}}
  \cup {U(Cls("str"), t) : t \in Mid}

Anns == Scalars \cup Depth1 \cup Depth2

(* ---- values ---- *)
V(c) == <<c, <<>>>>
ScalarVals == {V(c) : c \in {"int", "bool", "float", "complex", "str", "bytes", "NoneType",
                             "A", "B", "C"}}
ClassVals == {<<"$class", <<V(c)>>>> : c \in {"A", "B", "C", "int", "str"}}
FnVal == <<"$fn", <<>>>>
Elem == {V("int"), V("str"), V("float"), V("B"), V("NoneType")}
HashElem == {V("int"), V("str")}

Seqs1 == {<<>>} \cup {<<e>> : e \in Elem} \cup
         {<<e, f>> : e \in {V("int"), V("B")}, f \in {V("int"), V("str"), V("float"), V("A"), V("NoneType")}}
Vals1 ==
       {<<"list", s>> : s \in Seqs1}
  \cup {<<"tuple", s>> : s \in Seqs1}
  \cup {<<c, s>> : c \in {"set", "frozenset"},
                   s \in {<<>>, <<V("int")>>, <<V("str")>>, <<V("int"), V("str")>>}}
  \cup {<<"dict", s>> : s \in {<<>>} \cup {<<<<k, e>>>> : k \in HashElem, e \in Elem}
                               \cup {<<<<V("int"), V("int")>>, <<V("str"), V("str")>>>>}}

MidVals == {<<"list", <<V("int")>>>>, <<"list", <<V("str")>>>>, <<"list", <<>>>>,
            <<"tuple", <<V("int"), V("str")>>>>, <<"tuple", <<V("int")>>>>, V("int"), V("NoneType"),
            <<"dict", <<<<V("str"), V("int")>>>>>>, <<"set", <<V("int")>>>>}
Vals2 ==
       {<<"list", <<m>>>> : m \in MidVals}
  \cup {<<"tuple", <<V("int"), m>>>> : m \in MidVals}
  \cup {<<"dict", <<<<V("str"), m>>>>>> : m \in MidVals}
  \cup {<<"list", <<m, n>>>> : m \in {<<"list", <<V("int")>>>>}, n \in {<<"list", <<V("str")>>>>, V("NoneType")}}

Vals == ScalarVals \cup ClassVals \cup {FnVal} \cup Vals1 \cup Vals2

(* ---- function values with a known signature against Callable[[int]*n, int] ---- *)
(* The signature dimensions are the ones argument binding (and pytype's matcher) looks at; every *)
(* parameter is an int, the result is an int.  Three forms of the same signature: an annotated   *)
(* def, a lambda, a bound method (self already bound).                                           *)
MaxN == 3
IntSeq(n) == [j \in 1..n |-> Cls("int")]
CallSig(n) == <<"callsig", "", IntSeq(n + 1)>>        \* Callable[[int]*n, int]
Sig(f, m, o, s, kr, kd, kw) ==
  [form |-> f, mand |-> m, opt |-> o, star |-> s, kwreq |-> kr, kwdef |-> kd, kwargs |-> kw]
DefSigs == {Sig("def", m, o, s, kr, kd, kw) : m \in 0..2, o \in 0..1, s \in BOOLEAN,
                                               kr \in 0..1, kd \in 0..2, kw \in BOOLEAN}
LambdaSigs == {Sig("lambda", m, o, s, kr, kd, FALSE) : m \in 0..2, o \in 0..1, s \in BOOLEAN,
                                                        kr \in 0..1, kd \in 0..1}
MethodSigs == {Sig("method", m, 0, s, kr, kd, kw) : m \in 0..2, s \in BOOLEAN, kr \in 0..1,
                                                     kd \in 0..1, kw \in BOOLEAN}
FnVals == {<<"$def", g>> : g \in DefSigs \cup LambdaSigs \cup MethodSigs}
(* the function values that are also put against annotations that are not Callable[[..], ..] *)
FnValsSmall == {<<"$def", g>> : g \in {h \in DefSigs \cup LambdaSigs \cup MethodSigs :
                                          h.mand = 1 /\ h.opt = 0 /\ ~h.kwargs /\ h.kwreq = 0}}

SigAnns == {CallSig(n) : n \in 0..MaxN} \cup {U(CallSig(1), TNone), U(Cls("str"), CallSig(2))}
FnOtherAnns == {TAny, Cls("object"), Cls("int"), <<"callable", "", <<>>>>, U(Cls("int"), TNone),
                Gen("list", <<Cls("int")>>), <<"type", "", <<Cls("A")>>>>}
AllAnns == Anns \cup SigAnns
(* the values enumerated against an annotation *)
SigAnnsFull == {CallSig(1), U(CallSig(1), TNone), U(Cls("str"), CallSig(2))}
ValsFor(t) == IF t \in SigAnns THEN
                (IF t \in SigAnnsFull THEN Vals ELSE ScalarVals \cup ClassVals \cup {FnVal})
                \cup (IF t[1] = "callsig" THEN FnVals ELSE {v \in FnVals : v[2].form = "def"})
              ELSE IF t \in FnOtherAnns THEN Vals \cup FnValsSmall ELSE Vals
AllVals == Vals \cup FnVals

Sites == {"arg", "ret", "assign"}

-----------------------------------------------------------------------------
(* The walk: one state per annotation; the three enforcement sites are the actions; the        *)
(* post-state carries what the specification expects pytype to report.                         *)
VARIABLES k, site, expect
AnnSeq == SetToSeq(AllAnns)

Init == k = 1 /\ site = "arg" /\ expect = {v \in ValsFor(AnnSeq[1]) : ~Admits(AnnSeq[1], v)}
Enforce(s) == /\ site' = s
              /\ UNCHANGED k
              /\ expect' = {v \in ValsFor(AnnSeq[k]) : ~Admits(AnnSeq[k], v)}
NextAnn == /\ k < Cardinality(AllAnns)
           /\ k' = k + 1 /\ site' = "arg"
           /\ expect' = {v \in ValsFor(AnnSeq[k + 1]) : ~Admits(AnnSeq[k + 1], v)}
Next == (\E s \in Sites : s # site /\ Enforce(s)) \/ NextAnn
Spec == Init /\ [][Next]_<<k, site, expect>>

(* laws of the function-value fragment (checked once, they do not depend on the walk) *)
With(v, f, x) == <<"$def", [v[2] EXCEPT ![f] = x]>>
FnLaws ==
  /\ FnOtherAnns \subseteq Anns /\ \A t \in SigAnns : Understood(t)
  /\ \A v \in FnVals :
       /\ Admits(TAny, v) /\ Admits(Cls("object"), v) /\ Admits(<<"callable", "", <<>>>>, v)
       /\ ~Admits(Cls("int"), v) /\ ~Admits(Gen("list", <<Cls("int")>>), v)
       /\ \A n \in 0..MaxN :
            LET a == Admits(CallSig(n), v) IN
            \* keyword-only parameters with a default and **kwargs never matter
            /\ \A kd \in 0..3 : Admits(CallSig(n), With(v, "kwdef", kd)) = a
            /\ \A kw \in BOOLEAN : Admits(CallSig(n), With(v, "kwargs", kw)) = a
            \* a keyword-only parameter without default makes the function uncallable positionally
            /\ v[2].kwreq > 0 => ~a
            \* one more mandatory positional parameter shifts the window by one
            /\ Admits(CallSig(n + 1), With(v, "mand", v[2].mand + 1)) = a
            \* the admitted arities form an interval starting at mand
            /\ (a /\ n > v[2].mand) => Admits(CallSig(n - 1), v)
            /\ (v[2].kwreq = 0 /\ n = v[2].mand) => a
            /\ n < v[2].mand => ~a
            \* the documented deviations only ever widen what is accepted
            /\ \A d \in {"kwonlypos", "kwargsvar"} : a => AdmitsD(CallSig(n), v, {d})
            /\ Admits(U(CallSig(n), TNone), v) = a
  /\ \A n \in 0..MaxN : Admits(CallSig(n), FnVal) = (n = 1)

(* laws that keep the oracle honest *)
Laws ==
  LET t == AnnSeq[k] IN
  /\ Understood(t)
  /\ (k = 1 /\ site = "arg") => FnLaws
  /\ \A v \in ValsFor(t) : Admits(TAny, v) /\ Admits(Cls("object"), v)
  /\ \A v \in ValsFor(t) : Admits(t, v) => Admits(U(t, TNone), v) /\ Admits(U(Cls("C"), t), v)
  /\ \A v \in ValsFor(t) : Admits(U(t, TNone), v) <=> (Admits(t, v) \/ v = V("NoneType"))
  /\ (t[1] = "cls" /\ t[2] = "int") => \A v \in Vals : Admits(t, v) => Admits(Cls("float"), v)
  /\ (t[1] = "gen" /\ t[2] = "list") => \A v \in Vals : Admits(t, v) => Admits(Gen("Sequence", t[3]), v)
  /\ (t[1] = "gen" /\ t[2] = "Sequence") => \A v \in Vals : Admits(t, v) => Admits(Gen("Iterable", t[3]), v)

(* vacuity: the verdict is non-trivial for (almost) every annotation *)
NonTrivial == LET t == AnnSeq[k] IN
  (t # TAny /\ t # Cls("object")) => expect # {}

ExportInv ==
  (Export /\ k = 1 /\ site = "arg") =>
     PrintT(<<"CASE", ToJson([anns |-> Anns, vals |-> Vals, siganns |-> SigAnns,
                              fnother |-> FnOtherAnns, fnvals |-> FnVals, fnsmall |-> FnValsSmall,
                              \* the values enumerated against each Callable[[..], ..] annotation
                              sigvals |-> {<<t, ValsFor(t)>> : t \in SigAnns},
                              maxn |-> MaxN,
                              \* the oracle's arity table, confirmed against CPython by the driver
                              cancall |-> {<<v, n>> \in FnVals \X (0..MaxN) : Admits(CallSig(n), v)}])>>)
=============================================================================

------------------------------- MODULE PytdEq -------------------------------
(* The equality / hashing law of pytd type nodes (property C12, second sentence).              *)
(*                                                                                            *)
(* AllTerms enumerates every type term up to depth 2 over a small alphabet (every node class   *)
(* that carries a type: NamedType, ClassType, LateType, AnythingType, NothingType, Literal in   *)
(* its int / str / raw-bool / Constant-bool / enum-member / class-valued forms, TypeParameter,  *)
(* GenericType, TupleType,                                                                      *)
(* CallableType, UnionType, IntersectionType; unions with repeated, reordered and nested        *)
(* members).  The state space is the set of ORDERED PAIRS of such terms; on every pair TLC      *)
(* checks that SpecEq is reflexive and symmetric and coincides with equality of the canonical   *)
(* form CanonForm (hence is an equivalence for which a consistent hash exists).                     *)
(* The driver builds the real nodes for the exported term list, records a == b, hash(a) ==      *)
(* hash(b), len({a, b}) for every ordered pair, and TraceC12 judges the rows with SpecEq.       *)
EXTENDS PytdTerms, Json, SequencesExt

CONSTANTS NarrowNames,    \* class names used as members of binary / ternary constructors
          UnionLits,      \* literal payloads that may be union members, e.g. {"int:1", "pybool:True"}
          Deep            \* BOOLEAN: include the depth-2 layer

VARIABLE pair

LeafN == {T0("named", n) : n \in NarrowNames}
LeafX == {AnyT, NothingT, T0("classtype", "int"), T0("late", "int"), Lit("int:1"), Lit("int:0"),
          Lit("pybool:True"), Lit("bool:True"), Lit("str:a"), TVar("T"),
          \* node-valued literals: enum members (a Constant holding a class reference), a class
          Lit("enum:E.X"), Lit("enum:E.Y"), Lit("type:A")}
LeafW == LeafN \cup LeafX
LeafU == LeafN \cup {Lit(v) : v \in UnionLits}

Unions2(S) == {<<"union", "", <<x, y>>>> : x \in S, y \in S}
Unions3(S) == {<<"union", "", <<x, y, z>>>> : x \in S, y \in S, z \in S}

Depth1 ==
  {Gen("list", <<x>>) : x \in LeafW}
  \cup {<<"htuple", "", <<x>>>> : x \in LeafW}
  \cup {<<"type", "", <<x>>>> : x \in LeafW}
  \cup {<<"callany", "", <<x>>>> : x \in LeafW}
  \cup {Gen("dict", <<x, y>>) : x \in LeafN, y \in LeafN}
  \cup {<<"tuple", "", <<>>>>}
  \cup {<<"tuple", "", <<x>>>> : x \in LeafN}
  \cup {<<"tuple", "", <<x, y>>>> : x \in LeafN, y \in LeafN}
  \cup {<<"callable", "", <<x>>>> : x \in LeafN}
  \cup {<<"callable", "", <<x, y>>>> : x \in LeafN, y \in LeafN}
  \cup Unions2(LeafU)
  \cup Unions3(LeafN)
  \cup {<<"inter", "", <<x, y>>>> : x \in LeafN, y \in LeafN}

U1 == Unions2(LeafN)          \* the unions that are nested below another constructor

Depth2 ==
  {Gen("list", <<u>>) : u \in U1}
  \cup {<<"tuple", "", <<u, x>>>> : u \in U1, x \in LeafN}
  \cup {<<"callable", "", <<u, x>>>> : u \in U1, x \in LeafN}
  \cup {Gen("dict", <<x, u>>) : x \in LeafN, u \in U1}
  \cup {<<"union", "", <<u, x>>>> : u \in U1, x \in LeafN}                    \* flattened
  \cup {<<"union", "", <<Gen("list", <<u>>), x>>>> : u \in U1, x \in LeafN}   \* member holds a union
  \cup {<<"type", "", <<u>>>> : u \in U1}

AllTerms == LeafW \cup Depth1 \cup (IF Deep THEN Depth2 ELSE {})

(* one export per run: the term list in a fixed order shared with the driver *)
TermList == SetToSeq(AllTerms)
(* ... and the same list in the ClassType dialect: the driver builds every term a second and a   *)
(* third time from it - without class pointers, and with the pointers filled in by the real     *)
(* visitors - for the pointer-state dimension of the law (TraceC12: cross rows, life rows)       *)
CtTermList == [k \in DOMAIN TermList |-> CtDialect(TermList[k])]
ExportTerms == PrintT(<<"CASE", ToJson([terms |-> TermList, ct |-> CtTermList])>>)

EqInit == pair \in AllTerms \X AllTerms
EqNext == UNCHANGED pair
EqSpec == EqInit /\ [][EqNext]_pair

A == pair[1]
B == pair[2]
Reflexive   == (A = B) => SpecEq(A, B)
Symmetric   == SpecEq(A, B) <=> SpecEq(B, A)
CanonAgrees == SpecEq(A, B) <=> (CanonForm(A) = CanonForm(B))
(* the ClassType dialect: idempotent, coarser than the law on the terms as written (NamedType    *)
(* and ClassType of one name are different nodes, their ClassType-dialect forms are the same),   *)
(* and the law on dialect forms has a canonical form as well                                     *)
DialectIdem    == CtDialect(CtDialect(A)) = CtDialect(A)
DialectCoarser == SpecEq(A, B) => SpecEq(CtDialect(A), CtDialect(B))
DialectCanon   == SpecEq(CtDialect(A), CtDialect(B)) <=> (CanonForm(CtDialect(A)) = CanonForm(CtDialect(B)))
DialectPtr     == HasPtr(A) <=> HasPtr(CtDialect(A))
(* depth bound really holds for the enumeration *)
DepthOK     == Depth(A) <= 2 + (IF Tag(A) = "union" THEN 1 ELSE 0)
=============================================================================

------------------------------ MODULE TraceC14 ------------------------------
(* Code -> spec for C14.  Each case: [s |-> statement term, py |-> outcome observed when the    *)
(* statement was executed in isolation under CPython, flagged |-> pytype reported an error on  *)
(* the statement's line].  Clauses:                                                            *)
(*   oracle          py = Outcome(s)   (the specification is confirmed by the language)         *)
(*   false-positive  flagged => Outcome(s) in {TypeError, AttributeError}                       *)
(*   missed          Advertised(s) => flagged                                                   *)
EXTENDS OpDispatch, IOUtils, TLCExt

Cases == JsonDeserialize(IOEnv.TRACE_FILE)
VARIABLE i

Fails(c) ==
  LET o == Outcome(c.s) IN
  (IF c.py # o THEN {"oracle"} ELSE {})
  \cup (IF c.flagged /\ o \notin {"TypeError", "AttributeError"} THEN {"false-positive"} ELSE {})
  \cup (IF Advertised(c.s) /\ ~c.flagged THEN {"missed"} ELSE {})

TInit == i = 1 /\ stmt = <<"none", "", "", "">> /\ out = "ok" /\ TLCSet(1, FALSE)
TNext == /\ i <= Len(Cases)
         /\ i' = i + 1 /\ UNCHANGED <<stmt, out>>
         /\ (i' > Len(Cases) => TLCSet(1, TRUE))
Ok == i <= Len(Cases) =>
        LET f == Fails(Cases[i]) IN
          f = {} \/ PrintT(<<"BAD", ToJson([i |-> i, fails |-> f])>>)
Done == TLCGet(1)
=============================================================================

------------------------------ MODULE TraceC14 ------------------------------
(* Code -> spec for C14.  The trace is a sequence of EVENTS = the lines of the replayed        *)
(* programs in program order; the spec state (loc, hist) is advanced with the spec's own       *)
(* actions, so that every read of a location is judged against the assignments that the        *)
(* program really performed before it.  Every event is a record                                *)
(*   [ev, loc, k, s, py, flagged, names, base]                                                 *)
(*   ev      "base"   statement s of the base grammar (operands bound on earlier lines)        *)
(*           "bind"   first assignment of kind k to a fresh location of kind loc                *)
(*           "rebind" re-assignment of kind k to the current location                          *)
(*           "use"    statement template s reading the current location                        *)
(*   py      outcome observed when the line was executed under CPython (base: in isolation,    *)
(*           history: after the preceding lines of its program)                                *)
(*   flagged pytype reported an error on the line; names = the error names it reported         *)
(*   base    (use) what pytype did on the base-grammar statement Resolve(s, last kind):        *)
(*           "flagged" / "clean" / "" (not analysed in this run)                               *)
(* Clauses:                                                                                    *)
(*   oracle           py = Outcome(..)  (the specification is confirmed by the language)        *)
(*   not-a-behaviour  the event is not enabled in the spec state (driver fault)                *)
(*   false-positive   flagged => Outcome in {TypeError, AttributeError}                        *)
(*   missed           Advertised(..) => flagged                                                *)
(*   wrong-class      the reported error name belongs to the other exception class             *)
(* For a read of a location, false-positive / missed are attributed by the spec:               *)
(*   (plain)  pytype did the same on the base statement: not a matter of the history           *)
(*   -stale   an OVERWRITTEN kind of the history explains pytype's answer                      *)
(*   -hist    neither                                                                          *)
EXTENDS OpDispatch, IOUtils, TLCExt

Cases == JsonDeserialize(IOEnv.TRACE_FILE)
VARIABLE i

(* error names of pytype and the exception class they stand for: pinned here, a name outside  *)
(* this table on a judged line is reported                                                     *)
ErrClass == [ x \in {"unsupported-operands", "not-callable", "wrong-arg-types", "missing-parameter",
                     "wrong-arg-count"} |-> "TypeError" ]
            @@ [ x \in {"attribute-error"} |-> "AttributeError" ]
ToSet(q) == {q[x] : x \in DOMAIN q}

ClassFails(c, o) ==
  IF ~c.flagged THEN {}
  ELSE (IF \E n \in ToSet(c.names) : n \notin DOMAIN ErrClass THEN {"unknown-error-name"} ELSE {})
       \cup (IF IsErr(o) /\ \A n \in ToSet(c.names) : n \in DOMAIN ErrClass => ErrClass[n] # o
               THEN {"wrong-class"} ELSE {})

BaseFails(c) ==
  LET o == Outcome(c.s) IN
  (IF c.s \notin Statements THEN {"not-a-behaviour"} ELSE {})
  \cup (IF c.py # o THEN {"oracle"} ELSE {})
  \cup (IF c.flagged /\ ~IsErr(o) THEN {"false-positive"} ELSE {})
  \cup (IF Advertised(c.s) /\ ~c.flagged THEN {"missed"} ELSE {})
  \cup ClassFails(c, o)

AssignFails(c) ==
  (IF c.ev = "bind" /\ ~(c.loc \in LocKinds /\ c.k \in Operands) THEN {"not-a-behaviour"} ELSE {})
  \cup (IF c.ev = "rebind" /\ ~(loc = c.loc /\ CanRebind(hist, c.k)) THEN {"not-a-behaviour"} ELSE {})
  \cup (IF c.py # "ok" THEN {"oracle"} ELSE {})
  \cup (IF c.flagged THEN {"false-positive-assign"} ELSE {})

UseFails(c) ==
  IF ~(loc = c.loc /\ Len(hist) >= 1 /\ c.s \in Templates(Last(hist)) \cup MidTemplates
       /\ Resolve(c.s, Last(hist)) \in Statements)
    THEN {"not-a-behaviour"}
  ELSE
    LET rs == Resolve(c.s, Last(hist))
        o == Outcome(rs)
        asBase == c.base = (IF c.flagged THEN "flagged" ELSE "clean")
        stale == \E j \in 1..(Len(hist) - 1) : IsErr(Outcome(Resolve(c.s, hist[j]))) = c.flagged
        suffix == IF asBase THEN "" ELSE IF stale THEN "-stale" ELSE "-hist"
    IN (IF c.py # o THEN {"oracle"} ELSE {})
       \cup (IF c.flagged /\ ~IsErr(o) THEN {"false-positive" \o suffix} ELSE {})
       \cup (IF Advertised(rs) /\ ~c.flagged THEN {"missed" \o suffix} ELSE {})
       \cup ClassFails(c, o)

Fails(c) ==
  CASE c.ev = "base" -> BaseFails(c)
    [] c.ev \in {"bind", "rebind"} -> AssignFails(c)
    [] c.ev = "use" -> UseFails(c)
    [] OTHER -> {"not-a-behaviour"}

TInit == /\ i = 1 /\ stmt = NoStmt /\ out = "ok" /\ loc = "none" /\ plan = <<>> /\ hist = <<>>
         /\ TLCSet(1, FALSE)
TNext == /\ i <= Len(Cases)
         /\ i' = i + 1
         /\ LET c == Cases[i] IN
              CASE c.ev = "bind" -> loc' = c.loc /\ hist' = <<c.k>>
                [] c.ev = "rebind" -> hist' = Append(hist, c.k) /\ UNCHANGED loc
                [] OTHER -> UNCHANGED <<loc, hist>>
         /\ UNCHANGED <<stmt, out, plan>>
         /\ (i' > Len(Cases) => TLCSet(1, TRUE))
Ok == i <= Len(Cases) =>
        LET f == Fails(Cases[i]) IN
          f = {} \/ PrintT(<<"BAD", ToJson([i |-> i, fails |-> f, h |-> hist])>>)
Done == TLCGet(1)
=============================================================================

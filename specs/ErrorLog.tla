------------------------------ MODULE ErrorLog ------------------------------
(* C04, last sentence ("reported errors are unique and sorted by position") at the level of    *)
(* the DATA STRUCTURE: pytype/errors/errors.py, class ErrorLog, for all histories of its        *)
(* public operations, plus the history property of checkpoints.                                 *)
(*                                                                                              *)
(*   code                                       model                                           *)
(*   ErrorLog._errors                           log     sequence of abstract errors             *)
(*   ErrorLog._add / error / warn               Add(e)  through the filter                      *)
(*   with log.checkpoint() as cp: (CheckPoint)  Enter / Exit (innermost first); Exit truncates  *)
(*                                              the log to the recorded position, cp.errors =   *)
(*                                              exactly the suffix                              *)
(*   set_error_filter(director.filter_error)    SetFilter(F), F = set of suppressed             *)
(*                                              <<name, line>> pairs                            *)
(*   copy_from(cp.errors, stack)                CopyFrom(j, s): for every captured error an     *)
(*                                              error with its name/message/details at the      *)
(*                                              position of the stack s, severity error,        *)
(*                                              through the filter                              *)
(*   unique_sorted_errors / _sorted_errors /    ReportOf(log): OPERATIONAL transcription        *)
(*   get_unique_representation /                (stable sort by (file, line), groups by unique  *)
(*   _compare_traceback_strings, MAX_TRACEBACKS  representation in first-occurrence order, the  *)
(*                                              scan over the group with remove / break /       *)
(*                                              append-if-room), and next to it the             *)
(*                                              DECLARATIVE property P2                         *)
(*   has_error, __len__                         HasError(log), Len(log)                         *)
(*                                                                                              *)
(* An abstract error is a record                                                                *)
(*   [name, file, line, col, method, msg, det, tb, sev]                                         *)
(* file: 0 = no filename, otherwise an index into a list of file names in lexical order; det:   *)
(* "" = no details; tb: the traceback as the sequence of its frame lines (<<>> = None); sev:    *)
(* 1 = SEVERITY_WARNING, 2 = SEVERITY_ERROR.  A traceback string is TRACEBACK_MARKER followed   *)
(* by "\n  " + frame for every frame, frames contain no newline; hence "left.endswith(right)"   *)
(* on the strings without the marker is exactly "right's frames are a suffix of left's".        *)
(*                                                                                              *)
(* Properties (checked by TLC on this model; judged by TraceErrorLog.tla on the projected REAL   *)
(* states):                                                                                     *)
(*  P0  the log is the filtered history: Add appends e iff e passes the filter, nothing else     *)
(*      changes the log except Exit and CopyFrom; captures of closed checkpoints never change   *)
(*  P1  after Exit the log equals the log at the matching Enter (LIFO; what is added inside     *)
(*      does not survive unless copied explicitly), and the captured errors are exactly the     *)
(*      errors added at that nesting level that passed the filter, in order                     *)
(*  P2  R = Report(log):                                                                        *)
(*        sorted    R is non-decreasing in (file, line)                                         *)
(*        unique    no two entries of R have the same unique representation and comparable      *)
(*                  tracebacks (one a suffix of the other, in particular equal)                 *)
(*        max       at most MaxTB entries of R per unique representation                        *)
(*        inlog     every entry of R is an entry of the log                                     *)
(*        covered   every log entry e is REPRESENTED (some entry of R has e's unique            *)
(*                  representation and a traceback that is a suffix of e's, i.e. comparable and *)
(*                  not longer) or it OVERFLOWED (MaxTB earlier log entries of e's group are    *)
(*                  pairwise incomparable and incomparable with e).  This is all the code       *)
(*                  guarantees: which of more than MaxTB incomparable tracebacks survive        *)
(*                  depends on the order of the log (see RoomLeft below).                       *)
(*  P3  Report does not modify the log, gives the same answer when asked again, and is          *)
(*      idempotent as a function: Report(Report(log)) = Report(log)                             *)
(*  P4  has_error <=> some logged error has severity error (definitional in the model; a real   *)
(*      property only of the code)                                                              *)
EXTENDS Naturals, Sequences, FiniteSets, SequencesExt, TLC, Json

CONSTANTS Families,   \* names of the families of histories explored in this run
          Extra,      \* added to every family's bound on the number of operations
          Export,     \* "none" | "trans" (every transition) | "hist" (final histories, -simulate)
          MaxTB       \* errors.MAX_TRACEBACKS

-----------------------------------------------------------------------------
(* abstract errors *)
NoErr == [name |-> "", file |-> 0, line |-> 0, col |-> 0, method |-> "", msg |-> "", det |-> "",
          tb |-> <<>>, sev |-> 0]
NoStack == [file |-> 0, line |-> 0, col |-> 0, method |-> "", tb |-> <<>>]

SuffixOf(s, t) == Len(s) <= Len(t) /\ SubSeq(t, Len(t) - Len(s) + 1, Len(t)) = s

(* _compare_traceback_strings(left, right): 0 / 1 / -1 / None *)
Cmp(l, r) == IF l = r THEN "eq"
             ELSE IF SuffixOf(r, l) THEN "gt"      \* left.endswith(right)
             ELSE IF SuffixOf(l, r) THEN "lt"      \* right.endswith(left)
             ELSE "none"
Comparable(l, r) == SuffixOf(l, r) \/ SuffixOf(r, l)

(* Error.get_unique_representation = (_position(), message, details, name); _position() is the  *)
(* empty string when there is neither a filename nor a line (column and method are ignored)     *)
URep(e) == IF e.file # 0 \/ e.line # 0
             THEN <<e.file, e.line, e.col, e.method, e.msg, e.det, e.name>>
             ELSE <<0, 0, 0, "", e.msg, e.det, e.name>>
SameGroup(a, b) == URep(a) = URep(b)

(* _sorted_errors: sorted(self._errors, key=(filename or "", line)) - stable *)
KeyLeq(a, b) == a.file < b.file \/ (a.file = b.file /\ a.line <= b.line)
Insert(s, e) ==      \* s is sorted: the entries with key <= key(e) are a prefix
  LET n == Cardinality({x \in DOMAIN s : KeyLeq(s[x], e)}) IN
  SubSeq(s, 1, n) \o <<e>> \o SubSeq(s, n + 1, Len(s))
StableSort(L) == FoldLeft(Insert, <<>>, L)

(* unique_sorted_errors, the inner loop "for previous_error in list(errors)": st.cur is the    *)
(* list being modified, st.broke = the loop was left with break, st.rm = an entry was removed  *)
RemoveOne(s, x) ==
  LET p == CHOOSE j \in DOMAIN s : s[j] = x /\ \A m \in 1 .. (j - 1) : s[m] # x IN
  SubSeq(s, 1, p - 1) \o SubSeq(s, p + 1, Len(s))
ScanStep(st, prev, e) ==
  IF st.broke THEN st
  ELSE LET c == Cmp(e.tb, prev.tb) IN
       IF c = "none" THEN st                                                        \* continue
       ELSE IF c = "lt" THEN [st EXCEPT !.cur = RemoveOne(@, prev), !.rm = TRUE]  \* remove
       ELSE [st EXCEPT !.broke = TRUE]                                              \* break
Scan(es, e) == FoldLeft(LAMBDA st, prev : ScanStep(st, prev, e),
                        [cur |-> es, broke |-> FALSE, rm |-> FALSE], es)
(* groups: the dict unique_errors in insertion order; lost = the scan removed an entry and then *)
(* discarded the new error (cannot happen: a group is an antichain - checked as InvNoLoss)      *)
AddToGroups(G, e) ==
  LET u == URep(e) IN
  IF \A g \in DOMAIN G : G[g].u # u THEN Append(G, [u |-> u, es |-> <<e>>, lost |-> FALSE])
  ELSE LET g == CHOOSE y \in DOMAIN G : G[y].u = u
           r == Scan(G[g].es, e)
           es2 == IF ~r.broke /\ Len(r.cur) < MaxTB THEN Append(r.cur, e) ELSE r.cur IN   \* for-else
       [G EXCEPT ![g] = [u |-> u, es |-> es2, lost |-> @.lost \/ (r.broke /\ r.rm)]]
GroupsOf(L) == FoldLeft(AddToGroups, <<>>, StableSort(L))
ReportOf(L) == FoldLeft(LAMBDA acc, g : acc \o g.es, <<>>, GroupsOf(L))     \* sum(values, [])

HasError(L) == \E x \in DOMAIN L : L[x].sev = 2

-----------------------------------------------------------------------------
(* P2, declaratively: L = the log, R = the report *)
Incomp(a, b) == ~Comparable(a.tb, b.tb)
Sorted(R) == \A a, b \in DOMAIN R : a < b => KeyLeq(R[a], R[b])
UniqueR(R) == \A a, b \in DOMAIN R : (a # b /\ SameGroup(R[a], R[b])) => Incomp(R[a], R[b])
AtMost(R) == \A a \in DOMAIN R : Cardinality({b \in DOMAIN R : SameGroup(R[a], R[b])}) <= MaxTB
InLog(R, L) == \A a \in DOMAIN R : \E j \in DOMAIN L : L[j] = R[a]
Represented(e, R) == \E a \in DOMAIN R : SameGroup(R[a], e) /\ SuffixOf(R[a].tb, e.tb)
(* the processing order inside a group is the log order (equal keys, stable sort) *)
Overflowed(L, j) ==
  LET C == {p \in 1 .. (j - 1) : SameGroup(L[p], L[j]) /\ Incomp(L[p], L[j])} IN
  \E S \in SUBSET C : /\ Cardinality(S) = MaxTB
                      /\ \A p, q \in S : p # q => Incomp(L[p], L[q])
Covered(L, R) == \A j \in DOMAIN L : Represented(L[j], R) \/ Overflowed(L, j)
P2Fails(L, R) ==
  (IF Sorted(R) THEN {} ELSE {"P2-sorted"})
  \cup (IF UniqueR(R) THEN {} ELSE {"P2-unique"})
  \cup (IF AtMost(R) THEN {} ELSE {"P2-max"})
  \cup (IF InLog(R, L) THEN {} ELSE {"P2-inlog"})
  \cup (IF Covered(L, R) THEN {} ELSE {"P2-covered"})

(* observations about a (log, report) pair: coverage flags, and two quirks that P2 permits *)
Replaced(L, R) ==        \* some log entry is represented only by a strictly shorter traceback
  \E j \in DOMAIN L : \E a \in DOMAIN R : SameGroup(R[a], L[j]) /\ SuffixOf(R[a].tb, L[j].tb)
                                          /\ R[a].tb # L[j].tb
IncomparableKept(R) == \E a, b \in DOMAIN R : a # b /\ SameGroup(R[a], R[b])
Dropped(L, R) == \E j \in DOMAIN L : ~Represented(L[j], R)
(* an incomparable traceback was dropped for lack of room although the final report has room:  *)
(* the report depends on the ORDER in which the errors were logged                              *)
RoomLeft(L, R) ==
  \E j \in DOMAIN L : /\ ~Represented(L[j], R)
                      /\ Cardinality({a \in DOMAIN R : SameGroup(R[a], L[j])}) < MaxTB
(* the unique representation ignores the severity: a warning logged first hides an error *)
SevShadow(L, R) ==
  \E j \in DOMAIN L : /\ L[j].sev = 2
                      /\ \A a \in DOMAIN R : SameGroup(R[a], L[j]) => R[a].sev # 2

-----------------------------------------------------------------------------
(* families of histories (the bounds of the model) *)
E1 == "attribute-error"
E2 == "name-error"
TBAll == {<<>>, <<"a">>, <<"b">>, <<"a", "b">>, <<"b", "a">>}
AllOps == {"add", "enter", "exit", "setfilter", "copy", "report"}
F1 == {<<E1, 1>>}
F2 == {<<E1, 1>>, <<E2, 2>>}
F3 == {<<E1, 2>>}
S1 == [file |-> 1, line |-> 2, col |-> 1, method |-> "g", tb |-> <<"a">>]

Base == [name |-> "", names |-> {E1}, files |-> {1}, lines |-> {1}, cols |-> {0}, methods |-> {"f"},
         msgs |-> {"m1"}, dets |-> {""}, tbs |-> {<<>>}, sevs |-> {2}, sevByName |-> FALSE,
         filters |-> {{}}, stacks |-> {}, ops |-> {"add"}, maxNest |-> 0, maxOps |-> 3,
         distinct |-> FALSE, twoPhase |-> FALSE]

(* The report is a function of the log and the driver asks for it after EVERY step, so the      *)
(* families about P2 need only Add; maxOps = length of the histories (Extra = 0: quick tier).  *)
Family(n) ==
  CASE n = "report" ->     \* one group per line, all five tracebacks
         [Base EXCEPT !.name = n, !.lines = {1, 2}, !.tbs = TBAll, !.maxOps = 3 + Extra]
    [] n = "groups" ->     \* groups that share a sort key: columns, details
         [Base EXCEPT !.name = n, !.cols = {0, 1}, !.dets = {"", "d1"},
                      !.tbs = {<<>>, <<"b", "a">>}, !.maxOps = 3 + Extra]
    [] n = "sev" ->        \* the severity is not part of the unique representation
         [Base EXCEPT !.name = n, !.tbs = {<<>>, <<"a">>}, !.sevs = {1, 2}, !.maxOps = 4 + Extra]
    [] n = "maxtb" ->      \* antichains of more than MaxTB tracebacks, replaced ones among them:
                           \* every order of pairwise different errors of one group
         [Base EXCEPT !.name = n, !.distinct = TRUE, !.maxOps = 5 + Extra,
                      !.tbs = {<<"a", "c">>, <<"b", "c">>, <<"d">>, <<"x">>, <<"c">>}
                              \cup (IF Extra > 0 THEN {<<>>, <<"x", "d">>} ELSE {})]
    [] n = "nopos" ->      \* errors without a file: line 0 has no position at all
         [Base EXCEPT !.name = n, !.files = {0}, !.lines = {0, 1}, !.cols = {0, 1},
                      !.methods = {"", "f"}, !.maxOps = 2 + Extra]
    [] n = "files" ->      \* sort key (file, line)
         [Base EXCEPT !.name = n, !.files = {0, 1, 2}, !.lines = {1, 2}, !.maxOps = 3 + Extra]
    [] n = "checkpoint" -> \* nested checkpoints, the filter, copy_from
         [Base EXCEPT !.name = n, !.names = {E1, E2}, !.sevs = {1, 2}, !.sevByName = TRUE,
                      !.filters = {{}, F1}, !.stacks = {NoStack, S1}, !.maxNest = 3,
                      !.ops = {"add", "enter", "exit", "setfilter", "copy"}, !.maxOps = 5 + Extra]
    [] n = "copy" ->       \* copy_from: inside other checkpoints, filtered at the new position
         [Base EXCEPT !.name = n, !.dets = {"d1"}, !.filters = {{}, F3}, !.stacks = {S1}, !.maxNest = 2,
                      !.ops = {"add", "enter", "exit", "setfilter", "copy"}, !.maxOps = 7 + Extra]
    [] n = "all" ->        \* every operation
         [Base EXCEPT !.name = n, !.names = {E1, E2}, !.sevs = {1, 2}, !.sevByName = TRUE,
                      !.lines = {1, 2}, !.filters = {{}, F2}, !.stacks = {S1}, !.maxNest = 2,
                      !.ops = AllOps, !.maxOps = 3 + Extra]
    [] n = "sim" ->        \* long random histories (tlc -simulate), the full alphabet
         [Base EXCEPT !.name = n, !.names = {E1, E2}, !.sevs = {1, 2}, !.sevByName = TRUE,
                      !.files = {0, 1}, !.lines = {1, 2}, !.cols = {0, 1}, !.dets = {"", "d1"},
                      !.tbs = TBAll, !.filters = {{}, F1, F2}, !.stacks = {NoStack, S1}, !.maxNest = 3,
                      !.ops = AllOps, !.maxOps = 14 + Extra, !.twoPhase = TRUE]
    [] n = "simtb" ->      \* long random histories inside one group: overflow, replacement
         [Base EXCEPT !.name = n, !.sevs = {1, 2},
                      !.tbs = {<<>>, <<"a", "c">>, <<"b", "c">>, <<"d">>, <<"x">>, <<"c">>, <<"a">>,
                               <<"b">>, <<"d", "a">>},
                      !.maxNest = 1, !.ops = {"add", "enter", "exit", "report"},
                      !.maxOps = 12 + Extra, !.twoPhase = TRUE]

ErrorsOf(f) ==
  {e \in [name : f.names, file : f.files, line : f.lines, col : f.cols, method : f.methods,
          msg : f.msgs, det : f.dets, tb : f.tbs, sev : f.sevs] :
     f.sevByName => (e.sev = IF e.name = E1 THEN 2 ELSE 1)}

-----------------------------------------------------------------------------
VARIABLES fam,      \* the family of this behaviour (fixed at Init)
          log,      \* ErrorLog._errors
          cps,      \* open checkpoints, innermost last: [pos, snap, added]; pos = CheckPoint.
                    \* _position; snap / added are history variables (the log at Enter; the errors
                    \* added while this checkpoint was the innermost one that passed the filter)
          closed,   \* closed checkpoints in the order of their Exit: [cap, added, ok]; cap =
                    \* CheckPoint.errors
          filter,   \* set of suppressed <<name, line>>
          rep,      \* [set, r]: the answer of the Report just asked
          pend,     \* two-phase families: the kind of operation chosen for the next step
          hist      \* the operations so far
vars == <<fam, log, cps, closed, filter, rep, pend, hist>>

NoRep == [set |-> FALSE, r |-> <<>>]
Op(o, e, f, c, s) == [op |-> o, e |-> e, f |-> f, c |-> c, s |-> s]

Passes(e, F) == <<e.name, e.line>> \notin F
Keep(s, F) == SelectSeq(s, LAMBDA e : Passes(e, F))
(* copy_from: self.error(stack, e._message, e.details, ...) under e's name *)
Mapped(e, s) == [name |-> e.name, file |-> s.file, line |-> s.line, col |-> s.col,
                 method |-> s.method, msg |-> e.msg, det |-> e.det, tb |-> s.tb, sev |-> 2]
MappedSeq(c, s) == [x \in DOMAIN c |-> Mapped(c[x], s)]
AddedToTop(new) ==
  IF cps = <<>> THEN cps ELSE [cps EXCEPT ![Len(cps)].added = @ \o new]

Add(e) ==
  LET new == IF Passes(e, filter) THEN <<e>> ELSE <<>> IN
  /\ log' = log \o new
  /\ cps' = AddedToTop(new)
  /\ rep' = NoRep
  /\ hist' = Append(hist, Op("add", e, {}, 0, NoStack))
  /\ UNCHANGED <<fam, closed, filter>>
Enter ==
  /\ cps' = Append(cps, [pos |-> Len(log), snap |-> log, added |-> <<>>])
  /\ rep' = NoRep
  /\ hist' = Append(hist, Op("enter", NoErr, {}, 0, NoStack))
  /\ UNCHANGED <<fam, log, closed, filter>>
Exit ==
  /\ cps # <<>>
  /\ LET top == cps[Len(cps)] IN
       /\ log' = SubSeq(log, 1, top.pos)                       \* CheckPoint.revert
       /\ closed' = Append(closed, [cap |-> SubSeq(log, top.pos + 1, Len(log)),
                                    added |-> top.added, ok |-> (log' = top.snap)])
  /\ cps' = SubSeq(cps, 1, Len(cps) - 1)
  /\ rep' = NoRep
  /\ hist' = Append(hist, Op("exit", NoErr, {}, 0, NoStack))
  /\ UNCHANGED <<fam, filter>>
SetFilter(F) ==
  /\ filter' = F
  /\ rep' = NoRep
  /\ hist' = Append(hist, Op("setfilter", NoErr, F, 0, NoStack))
  /\ UNCHANGED <<fam, log, cps, closed>>
CopyFrom(j, s) ==
  /\ j \in DOMAIN closed
  /\ LET new == Keep(MappedSeq(closed[j].cap, s), filter) IN
       /\ log' = log \o new
       /\ cps' = AddedToTop(new)
  /\ rep' = NoRep
  /\ hist' = Append(hist, Op("copy", NoErr, {}, j, s))
  /\ UNCHANGED <<fam, closed, filter>>
Report ==
  /\ rep' = [set |-> TRUE, r |-> ReportOf(log)]
  /\ hist' = Append(hist, Op("report", NoErr, {}, 0, NoStack))
  /\ UNCHANGED <<fam, log, cps, closed, filter>>
(* last step of an exported random history: a single successor *)
End ==
  /\ hist' = Append(hist, Op("end", NoErr, {}, 0, NoStack))
  /\ UNCHANGED <<fam, log, cps, closed, filter, rep>>

KindEnabled(kd) ==
  \/ kd = "add"
  \/ kd = "enter" /\ Len(cps) < fam.maxNest
  \/ kd = "exit" /\ cps # <<>>
  \/ kd = "setfilter" /\ \E F \in fam.filters : F # filter
  \/ kd = "copy" /\ fam.stacks # {} /\ \E j \in DOMAIN closed : closed[j].cap # <<>>
  \/ kd = "report" /\ ~rep.set
Do(kd) ==
  \/ kd = "add" /\ \E e \in ErrorsOf(fam) :
                      (fam.distinct => (\A x \in DOMAIN log : log[x] # e)) /\ Add(e)
  \/ kd = "enter" /\ Len(cps) < fam.maxNest /\ Enter
  \/ kd = "exit" /\ Exit
  \/ kd = "setfilter" /\ \E F \in fam.filters : F # filter /\ SetFilter(F)
  \/ kd = "copy" /\ \E j \in DOMAIN closed, s \in fam.stacks : closed[j].cap # <<>> /\ CopyFrom(j, s)
  \/ kd = "report" /\ ~rep.set /\ Report

Init == /\ fam \in {Family(n) : n \in Families}
        /\ log = <<>> /\ cps = <<>> /\ closed = <<>> /\ filter = {} /\ rep = NoRep
        /\ pend = "" /\ hist = <<>>
Next ==
  /\ Len(hist) < fam.maxOps
  /\ IF Export = "hist" /\ pend = "" /\ Len(hist) = fam.maxOps - 1 THEN End /\ pend' = pend
     ELSE IF ~fam.twoPhase THEN (\E kd \in fam.ops : Do(kd)) /\ pend' = pend
     ELSE IF pend = "" THEN /\ \E kd \in fam.ops : KindEnabled(kd) /\ pend' = kd
                            /\ UNCHANGED <<fam, log, cps, closed, filter, rep, hist>>
     ELSE Do(pend) /\ pend' = ""

View == <<fam.name, log, cps, closed, filter, rep, pend>>

-----------------------------------------------------------------------------
(* the properties on the model *)
InvP1 ==
  /\ \A x \in DOMAIN cps :
       LET hi == IF x = Len(cps) THEN Len(log) ELSE cps[x + 1].pos IN
       /\ cps[x].pos <= hi /\ hi <= Len(log)
       /\ SubSeq(log, 1, cps[x].pos) = cps[x].snap          \* nothing below an open checkpoint moves
       /\ SubSeq(log, cps[x].pos + 1, hi) = cps[x].added
  /\ \A j \in DOMAIN closed : closed[j].ok /\ closed[j].cap = closed[j].added
InvP2 == P2Fails(log, ReportOf(log)) = {}
InvP3 == LET R == ReportOf(log) IN
         /\ ReportOf(R) = R
         /\ rep.set => rep.r = R
InvP4 == HasError(log) <=> \E x \in DOMAIN log : log[x].sev = 2
InvNoLoss == LET G == GroupsOf(log) IN \A g \in DOMAIN G : ~G[g].lost
(* corollary of P2: if no MaxTB + 1 log entries of one group are pairwise incomparable, every    *)
(* log entry is represented                                                                     *)
InvComplete ==
  LET R == ReportOf(log) IN
  (\A j \in DOMAIN log : ~Overflowed(log, j)) => ~Dropped(log, R)

ExportTrans == (Export = "trans") => PrintT(<<"CASE", ToJson([f |-> fam.name, h |-> hist'])>>)
ExportHist == (Export = "hist" /\ Len(hist) = fam.maxOps) =>
                 PrintT(<<"CASE", ToJson([f |-> fam.name, h |-> hist])>>)
=============================================================================

------------------------------ MODULE TraceC11 ------------------------------
(* Code -> spec for C11.  Every case is one real execution of optimize.Optimize, recorded     *)
(* pass by pass, applied twice:                                                               *)
(*   c.tab     the declaration table given to Optimize (terms of PytdDen)                     *)
(*   c.opt     the option setting, c.bases the direct-bases table the code itself extracted   *)
(*   c.steps1  the passes of the first run that changed the table: [p, tab] in order          *)
(*   c.steps2  the same for the second run (Optimize applied to its own output)               *)
(* The spec state is advanced pass by pass; `tab` is bound to the REAL table after each pass  *)
(* and `pred` holds what the spec's own pass operator predicts from the real table before it. *)
(* Verdicts (BAD lines, evaluated by TLC with the operators of Optimizer / PytdDen):          *)
(*   narrowed-by   a single real pass narrowed a slot / dropped coverage of a signature        *)
(*   narrowed      the real output does not admit a value the input admitted (slot by slot,    *)
(*                 every input signature covered by an output signature)                       *)
(*   unexplained   lossless setting, and the output is wider than every allowed change         *)
(*                 (duplicate removal, return/exception merging, container merging, union      *)
(*                 simplification justified by the hierarchy, long-union collapse) explains    *)
(*   shape         declarations added, dropped or reordered                                    *)
(*   not-idempotent  the second run changed the table (first = first pass that changed it)     *)
(* DIV lines (informational): the spec's prediction for a pass differs from the real table.   *)
(* STAT lines: the kind of change of every slot, for the vacuity guards of the driver.        *)
EXTENDS Optimizer, IOUtils, TLCExt

Cases == JsonDeserialize(IOEnv.TRACE_FILE)

VARIABLES i,        \* index of the case being replayed
          pred      \* the spec's prediction for the last pass
tvars == <<vars, i, pred>>

StepsOf(c, r) == IF r = 1 THEN c.steps1 ELSE c.steps2
RealAfter(c, r, p, cur) ==
  LET st == StepsOf(c, r)
      hit == {k \in DOMAIN st : st[k].p = p} IN
  IF hit = {} THEN cur ELSE st[CHOOSE k \in hit : TRUE].tab

Load(c) ==
  /\ hier' = c.bases /\ opt' = c.opt /\ tab' = c.tab /\ tab0' = c.tab /\ prev' = c.tab
  /\ out1' = c.tab /\ last' = "" /\ first' = "" /\ pc' = 1 /\ run' = 1
  /\ resolved' = c.opt.resolved /\ pred' = c.tab

TInit ==
  /\ i = 1 /\ TLCSet(1, FALSE)
  /\ LET c == Cases[1] IN
     /\ hier = c.bases /\ opt = c.opt /\ tab = c.tab /\ tab0 = c.tab /\ prev = c.tab
     /\ out1 = c.tab /\ last = "" /\ first = "" /\ pc = 1 /\ run = 1
     /\ resolved = c.opt.resolved /\ pred = c.tab

(* one pass of the real pipeline, mirrored by the spec's pass operator *)
TStep ==
  /\ i <= Len(Cases) /\ pc <= NPasses
  /\ LET p == Passes[pc]
         real == RealAfter(Cases[i], run, p, tab) IN
     /\ pred' = IF Enabled(opt, p) THEN ApplyPass(Ctx0, p, tab) ELSE tab
     /\ tab' = real /\ prev' = tab /\ last' = p
     /\ resolved' = (resolved \/ (p = "Lookup" /\ Enabled(opt, p)))
     /\ first' = IF run = 2 /\ first = "" /\ real # tab THEN p ELSE first
  /\ pc' = pc + 1
  /\ UNCHANGED <<hier, run, opt, tab0, out1, i>>

(* the output is optimised once more (only replayed when the second real run changed something) *)
TAgain ==
  /\ i <= Len(Cases) /\ pc = NPasses + 1 /\ run = 1 /\ Cases[i].steps2 # <<>>
  /\ run' = 2 /\ pc' = 1 /\ out1' = tab /\ prev' = tab /\ last' = "" /\ pred' = tab
  /\ UNCHANGED <<hier, tab, resolved, opt, tab0, first, i>>

NextCase ==
  /\ i <= Len(Cases) /\ pc = NPasses + 1 /\ (run = 2 \/ Cases[i].steps2 = <<>>)
  /\ i' = i + 1
  /\ IF i' <= Len(Cases) THEN Load(Cases[i'])
     ELSE /\ TLCSet(1, TRUE)
          /\ UNCHANGED <<hier, opt, tab, tab0, prev, out1, last, first, run, resolved, pred>> /\ pc' = pc

TNext == TStep \/ TAgain \/ NextCase

NarrowOnly(S) == {x \in S : x[1] \in {"narrowed", "shape"}}
AnyOpt == [opt EXCEPT !.lossy = TRUE, !.remove_mutable = TRUE]

Fails ==
  IF i > Len(Cases) THEN {}
  ELSE
    (IF last # "" /\ prev # tab
       THEN {<<"narrowed-by", last, x[2], x[3]>> : x \in NarrowOnly(TableFails(hier, AnyOpt, prev, tab))}
       ELSE {})
    \cup (IF pc = NPasses + 1 /\ run = 1 /\ last # "" /\ tab0 # tab THEN TableFails(hier, opt, tab0, tab) ELSE {})
    \cup (IF pc = NPasses + 1 /\ run = 2 /\ last # "" /\ tab # out1
            THEN {<<"not-idempotent", first, "", {}>>} ELSE {})

(* FindCommonSuperClasses builds its union from the iteration order of a Python set; the       *)
(* prediction is compared modulo the order of union members for that pass only.                *)
RECURSIVE TEqU(_, _)
TEqU(a, b) ==
  /\ a[1] = b[1] /\ a[2] = b[2] /\ Len(a[3]) = Len(b[3])
  /\ IF a[1] = "union"
       THEN /\ \A k \in DOMAIN a[3] : \E j \in DOMAIN b[3] : TEqU(a[3][k], b[3][j])
            /\ \A j \in DOMAIN b[3] : \E k \in DOMAIN a[3] : TEqU(a[3][k], b[3][j])
       ELSE \A k \in DOMAIN a[3] : TEqU(a[3][k], b[3][k])
ParamEqU(p, q) == p.name = q.name /\ p.kind = q.kind /\ TEqU(p.type, q.type) /\ TEqU(p.mut, q.mut)
SigEqU(s, o) ==
  /\ Len(s.params) = Len(o.params) /\ Len(s.exc) = Len(o.exc)
  /\ \A k \in DOMAIN s.params : ParamEqU(s.params[k], o.params[k])
  /\ TEqU(s.ret, o.ret)
  /\ \A k \in DOMAIN s.exc : TEqU(s.exc[k], o.exc[k])
TabEqU(a, b) ==
  /\ Shape(a) = Shape(b)
  /\ \A k \in DOMAIN a.consts : TEqU(a.consts[k].type, b.consts[k].type)
  /\ \A k \in DOMAIN a.funcs :
        /\ Len(a.funcs[k].sigs) = Len(b.funcs[k].sigs)
        /\ \A j \in DOMAIN a.funcs[k].sigs : SigEqU(a.funcs[k].sigs[j], b.funcs[k].sigs[j])

Diverges == /\ i <= Len(Cases) /\ last # "" /\ pred # tab
            /\ (last = "FindCommon" => ~TabEqU(pred, tab))

Stat ==
  (i <= Len(Cases) /\ pc = NPasses + 1 /\ run = 1 /\ last # "") =>
     PrintT(<<"STAT", ToJson([i |-> i, kinds |-> TableKinds(hier, opt, tab0, tab),
                              strict |-> StrictNarrowed(hier, opt, tab0, tab)])>>)

Ok ==
  /\ LET f == Fails IN f = {} \/ PrintT(<<"BAD", ToJson([i |-> i, fails |-> f])>>)
  /\ ~Diverges \/ PrintT(<<"DIV", ToJson([i |-> i, run |-> run, p |-> last])>>)
  /\ Stat

Done == TLCGet(1)
=============================================================================

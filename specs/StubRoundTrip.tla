---------------------------- MODULE StubRoundTrip ----------------------------
(* The life cycle of one stub as a state machine over an ARTIFACT RECORD that holds exactly    *)
(* what properties C05 and C12 compare: digests of texts / byte strings / structural dumps of   *)
(* declaration trees, and the outcome of each step.                                             *)
(*                                                                                            *)
(*   text line   (C05)  Print -> Parse -> Verify -> Reprint -> Reparse -> Canon -> Resolve       *)
(*                      [-> Compare]                                                            *)
(*     Print      pytd_utils.Print(ast)                              t1                              *)
(*     Parse      parser.parse_string(t1)  (no module name)      a1 (structure of the AST)       *)
(*     Verify     visitors.VerifyVisitor on the parsed AST                                       *)
(*     Reprint    pytd_utils.Print(parsed AST)                       t2                              *)
(*     Reparse    parser.parse_string(t2)                        a2, pytd_utils.ASTeq(a1, a2)    *)
(*     Canon      parser.canonical_pyi(t1)                       t3, and whether it is idempotent*)
(*     Resolve    the text loaded as a module through the loader (names, imports, type params)   *)
(*     Compare    the declarations read back against the declarations that were printed, both    *)
(*                in a representation-independent normal form (stubs whose original is known);   *)
(*                where StubGen states that the printed text DENOTES other declarations than the  *)
(*                tree it was printed from (special method names: rk / ab), against those          *)
(*   byte line   (C12)  Canonical -> Encode -> Decode -> Reencode -> Reserialize                 *)
(*     Canonical  structure of the canonically ordered original                 c0               *)
(*     Encode     pickle_utils.Serialize(ast)                                   b1               *)
(*     Decode     pickle_utils.DecodeAst(b1)                     structure s1, ASTeq(.., canon)  *)
(*     Reencode   pickle_utils.Encode(decoded)                                     b2               *)
(*     Reserialize pickle_utils.Serialize(decoded.ast)                          b3               *)
(*     Again      pickle_utils.Serialize(ast) a second time on the SAME ast object  b4            *)
(*                (the first call cleared its class pointers in place)                            *)
(*     Reorder    structure of CanonicalOrdering(decoded.ast)                       s2            *)
(*   node line   (C12, second sentence, across class-pointer states)  Hash -> Clear -> Found     *)
(*     Hash       the type nodes of the AST about to be serialised (class pointers as the        *)
(*                producer left them: filled in, mixed or absent) are hashed and put in a set h0  *)
(*     Clear      after Serialize(ast) (which clears the pointers IN PLACE) the same node        *)
(*                objects are hashed again h1; is every one of them still found in the set?       *)
(*     Found      the type nodes of DecodeAst(bytes) (no pointers) are hashed h2; is every one    *)
(*                of them found in the set built at Hash (equal nodes de-duplicate)?              *)
(*                                                                                            *)
(* The real code is the environment: every step has a nondeterministic outcome (ok / failed,    *)
(* some digest).  A failed step that later steps need ends the run.  The properties are         *)
(* operators over the artifact record (C05Fails / C12Fails: the set of violated clauses), so    *)
(* that the same definitions judge the model's runs and the recorded runs of the real code      *)
(* (TraceC05, TraceC12 advance this machine with the recorded outcomes).                        *)
EXTENDS Naturals, Sequences, FiniteSets, TLC

CONSTANT Digests        \* the abstract digests the model run draws from (trace runs pass real ones)

VARIABLES line,         \* "text" | "bytes" | "nodes": which pipeline this run exercises
          phase,        \* name of the last completed step, "start", or "failed"
          art           \* the artifact record

rvars == <<line, phase, art>>

None == ""              \* digest not produced (yet)
Unk == "?"              \* outcome not known (yet); "y" / "n" otherwise
Art0 == [t1 |-> None, a1 |-> None, t2 |-> None, a2 |-> None, t3 |-> None,
         printed |-> Unk, parsed |-> Unk, verified |-> Unk, reprinted |-> Unk, reparsed |-> Unk,
         pytdeq |-> Unk, canon |-> Unk, idem |-> Unk, resolved |-> Unk, compared |-> Unk,
         origeq |-> Unk,
         c0 |-> None, b1 |-> None, s1 |-> None, b2 |-> None, b3 |-> None,
         canonical |-> Unk, encoded |-> Unk, decoded |-> Unk, deceq |-> Unk, reencoded |-> Unk,
         reserialized |-> Unk, failedAt |-> None,
         b4 |-> None, s2 |-> None, again |-> Unk, reordered |-> Unk,
         h0 |-> None, h1 |-> None, h2 |-> None, hashed |-> Unk, cleared |-> Unk, kept1 |-> Unk,
         found |-> Unk, kept2 |-> Unk]

YN(b) == IF b THEN "y" ELSE "n"
TextOrder  == <<"start", "Print", "Parse", "Verify", "Reprint", "Reparse", "Canon", "Resolve", "Compare">>
BytesOrder == <<"start", "Canonical", "Encode", "Decode", "Reencode", "Reserialize", "Again", "Reorder">>
NodesOrder == <<"start", "Hash", "Clear", "Found">>

Start(l) == line' = l /\ phase' = "start" /\ art' = Art0

Fail(step) == phase' = "failed" /\ art' = [art EXCEPT !.failedAt = step]

-----------------------------------------------------------------------------
(* text line *)
PrintStub(ok, d) ==
  /\ line = "text" /\ phase = "start" /\ UNCHANGED line
  /\ IF ok THEN phase' = "Print" /\ art' = [art EXCEPT !.printed = "y", !.t1 = d]
     ELSE Fail("Print") /\ TRUE
ParseText(ok, d) ==
  /\ line = "text" /\ phase = "Print" /\ UNCHANGED line
  /\ IF ok THEN phase' = "Parse" /\ art' = [art EXCEPT !.parsed = "y", !.a1 = d]
     ELSE phase' = "failed" /\ art' = [art EXCEPT !.parsed = "n", !.failedAt = "Parse"]
(* a verifier failure is recorded; the run goes on *)
VerifyAst(ok) ==
  /\ line = "text" /\ phase = "Parse" /\ UNCHANGED line
  /\ phase' = "Verify" /\ art' = [art EXCEPT !.verified = YN(ok)]
ReprintAst(ok, d) ==
  /\ line = "text" /\ phase = "Verify" /\ UNCHANGED line
  /\ IF ok THEN phase' = "Reprint" /\ art' = [art EXCEPT !.reprinted = "y", !.t2 = d]
     ELSE phase' = "failed" /\ art' = [art EXCEPT !.reprinted = "n", !.failedAt = "Reprint"]
ReparseText(ok, d, eq) ==
  /\ line = "text" /\ phase = "Reprint" /\ UNCHANGED line
  /\ phase' = "Reparse"
  /\ art' = IF ok THEN [art EXCEPT !.reparsed = "y", !.a2 = d, !.pytdeq = YN(eq)]
            ELSE [art EXCEPT !.reparsed = "n"]
CanonText(ok, d, idem) ==
  /\ line = "text" /\ phase = "Reparse" /\ UNCHANGED line
  /\ phase' = "Canon"
  /\ art' = IF ok THEN [art EXCEPT !.canon = "y", !.t3 = d, !.idem = YN(idem)]
            ELSE [art EXCEPT !.canon = "n"]
ResolveText(ok) ==
  /\ line = "text" /\ phase = "Canon" /\ UNCHANGED line
  /\ phase' = "Resolve" /\ art' = [art EXCEPT !.resolved = YN(ok)]
CompareOrig(ok, eq) ==
  /\ line = "text" /\ phase = "Resolve" /\ UNCHANGED line
  /\ phase' = "Compare"
  /\ art' = [art EXCEPT !.compared = YN(ok), !.origeq = IF ok THEN YN(eq) ELSE Unk]

(* bytes line *)
Canonicalize(ok, d) ==
  /\ line = "bytes" /\ phase = "start" /\ UNCHANGED line
  /\ IF ok THEN phase' = "Canonical" /\ art' = [art EXCEPT !.canonical = "y", !.c0 = d]
     ELSE phase' = "failed" /\ art' = [art EXCEPT !.canonical = "n", !.failedAt = "Canonical"]
EncodeAst(ok, d) ==
  /\ line = "bytes" /\ phase = "Canonical" /\ UNCHANGED line
  /\ IF ok THEN phase' = "Encode" /\ art' = [art EXCEPT !.encoded = "y", !.b1 = d]
     ELSE phase' = "failed" /\ art' = [art EXCEPT !.encoded = "n", !.failedAt = "Encode"]
DecodeBytes(ok, d, eq) ==
  /\ line = "bytes" /\ phase = "Encode" /\ UNCHANGED line
  /\ IF ok THEN phase' = "Decode" /\ art' = [art EXCEPT !.decoded = "y", !.s1 = d, !.deceq = YN(eq)]
     ELSE phase' = "failed" /\ art' = [art EXCEPT !.decoded = "n", !.failedAt = "Decode"]
ReencodeObj(ok, d) ==
  /\ line = "bytes" /\ phase = "Decode" /\ UNCHANGED line
  /\ phase' = "Reencode"
  /\ art' = IF ok THEN [art EXCEPT !.reencoded = "y", !.b2 = d] ELSE [art EXCEPT !.reencoded = "n"]
ReserializeAst(ok, d) ==
  /\ line = "bytes" /\ phase = "Reencode" /\ UNCHANGED line
  /\ phase' = "Reserialize"
  /\ art' = IF ok THEN [art EXCEPT !.reserialized = "y", !.b3 = d]
            ELSE [art EXCEPT !.reserialized = "n"]

SerializeAgain(ok, d) ==
  /\ line = "bytes" /\ phase = "Reserialize" /\ UNCHANGED line
  /\ phase' = "Again"
  /\ art' = IF ok THEN [art EXCEPT !.again = "y", !.b4 = d] ELSE [art EXCEPT !.again = "n"]
ReorderDecoded(ok, d) ==
  /\ line = "bytes" /\ phase = "Again" /\ UNCHANGED line
  /\ phase' = "Reorder"
  /\ art' = IF ok THEN [art EXCEPT !.reordered = "y", !.s2 = d] ELSE [art EXCEPT !.reordered = "n"]

(* node line *)
HashNodes(ok, d) ==
  /\ line = "nodes" /\ phase = "start" /\ UNCHANGED line
  /\ IF ok THEN phase' = "Hash" /\ art' = [art EXCEPT !.hashed = "y", !.h0 = d]
     ELSE phase' = "failed" /\ art' = [art EXCEPT !.hashed = "n", !.failedAt = "Hash"]
ClearNodes(ok, d, kept) ==
  /\ line = "nodes" /\ phase = "Hash" /\ UNCHANGED line
  /\ IF ok THEN phase' = "Clear" /\ art' = [art EXCEPT !.cleared = "y", !.h1 = d, !.kept1 = YN(kept)]
     ELSE phase' = "failed" /\ art' = [art EXCEPT !.cleared = "n", !.failedAt = "Clear"]
FoundNodes(ok, d, kept) ==
  /\ line = "nodes" /\ phase = "Clear" /\ UNCHANGED line
  /\ phase' = "Found"
  /\ art' = IF ok THEN [art EXCEPT !.found = "y", !.h2 = d, !.kept2 = YN(kept)]
            ELSE [art EXCEPT !.found = "n"]

-----------------------------------------------------------------------------
(* THE PROPERTIES, as sets of violated clauses of a (possibly partial) artifact record *)

(* C05: the text parses, the parsed AST verifies, re-printing reproduces the text, the        *)
(* re-read declarations are structurally the same, the text resolves as a module, and (where    *)
(* the original is comparable) what was read is what was printed.                               *)
C05Fails(a) ==
  {c \in {"print", "parse", "verify", "reprint", "fixpoint", "reparse", "asteq", "resolve",
          "compare", "orig"} :
     CASE c = "print"    -> a.printed = "n" \/ a.failedAt = "Print"
       [] c = "parse"    -> a.parsed = "n"
       [] c = "verify"   -> a.verified = "n"
       [] c = "reprint"  -> a.reprinted = "n"
       [] c = "fixpoint" -> a.t2 # None /\ a.t2 # a.t1
       [] c = "reparse"  -> a.reparsed = "n"
       [] c = "asteq"    -> a.a2 # None /\ a.a2 # a.a1
       [] c = "resolve"  -> a.resolved = "n"
       [] c = "compare"  -> a.compared = "n"
       [] c = "orig"     -> a.origeq = "n"}

(* observations that are not part of C05's statement (logged as divergences by the driver):     *)
(*   canon      canonical_pyi(t1) # t1  (it re-sorts by unqualified names)                       *)
(*   idem       canonical_pyi is not idempotent on t1                                            *)
(*   pytdeq     pytd_utils.ASTeq disagrees with structural equality of the two parsed ASTs       *)
C05Notes(a) ==
  {c \in {"canon", "canonfail", "idem", "pytdeq"} :
     CASE c = "canon"     -> a.t3 # None /\ a.t3 # a.t1
       [] c = "canonfail" -> a.canon = "n"
       [] c = "idem"      -> a.idem = "n"
       [] c = "pytdeq"    -> a.pytdeq # Unk /\ (a.pytdeq = "y") # (a.a2 = a.a1)}

(* C12: decode(encode x) is structurally the canonically ordered original; re-encoding the      *)
(* decoded object, serialising the decoded AST again, and serialising the SAME AST again give   *)
(* the same bytes; what is stored is in canonical order (canonical ordering of the decoded AST  *)
(* changes nothing).  Node line: the hash of a type node does not depend on the state of the    *)
(* class pointers below it, which equality ignores - the hashes of an AST's type nodes are the  *)
(* same before and after Serialize clears the pointers in place (moved), a set built before     *)
(* still holds every node (lost), the nodes of the decoded AST hash like the original's         *)
(* (rehash) and are found in that set (dup: else a set would keep two equal types).             *)
C12Clauses == {"canonical", "encode", "decode", "struct", "reencode", "bytes", "reserialize", "stable",
               "again", "repeat", "reorder", "order",
               "nodehash", "clear", "moved", "lost", "found", "rehash", "dup"}
C12Fails(a) ==
  {c \in C12Clauses :
     CASE c = "canonical"   -> a.canonical = "n"
       [] c = "encode"      -> a.encoded = "n"
       [] c = "decode"      -> a.decoded = "n"
       [] c = "struct"      -> a.s1 # None /\ a.s1 # a.c0
       [] c = "reencode"    -> a.reencoded = "n"
       [] c = "bytes"       -> a.b2 # None /\ a.b2 # a.b1
       [] c = "reserialize" -> a.reserialized = "n"
       [] c = "stable"      -> a.b3 # None /\ a.b3 # a.b1
       [] c = "again"       -> a.again = "n"
       [] c = "repeat"      -> a.b4 # None /\ a.b4 # a.b1
       [] c = "reorder"     -> a.reordered = "n"
       [] c = "order"       -> a.s2 # None /\ a.s2 # a.s1
       [] c = "nodehash"    -> a.hashed = "n"
       [] c = "clear"       -> a.cleared = "n"
       [] c = "moved"       -> a.h1 # None /\ a.h1 # a.h0
       [] c = "lost"        -> a.kept1 = "n"
       [] c = "found"       -> a.found = "n"
       [] c = "rehash"      -> a.h2 # None /\ a.h2 # a.h0
       [] c = "dup"         -> a.kept2 = "n"}
C12Notes(a) ==
  {c \in {"pytdeq"} : a.deceq # Unk /\ (a.deceq = "y") # (a.s1 = a.c0)}

Complete(l, p) == p = (CASE l = "text" -> "Compare" [] l = "bytes" -> "Reorder" [] OTHER -> "Found")
                  \/ p = "failed"
(* text runs of emitted stubs end at Resolve (no comparable original) *)
Ended == Complete(line, phase) \/ (line = "text" /\ phase = "Resolve")

-----------------------------------------------------------------------------
(* the model: any outcome at any step *)
Init == line \in {"text", "bytes", "nodes"} /\ phase = "start" /\ art = Art0

Next ==
  \/ \E ok \in BOOLEAN, d \in Digests :
       PrintStub(ok, d) \/ ParseText(ok, d) \/ ReprintAst(ok, d) \/ Canonicalize(ok, d) \/ EncodeAst(ok, d)
       \/ ReencodeObj(ok, d) \/ ReserializeAst(ok, d) \/ SerializeAgain(ok, d) \/ ReorderDecoded(ok, d)
       \/ HashNodes(ok, d)
  \/ \E ok, e \in BOOLEAN, d \in Digests : ReparseText(ok, d, e) \/ CanonText(ok, d, e) \/ DecodeBytes(ok, d, e)
                                          \/ ClearNodes(ok, d, e) \/ FoundNodes(ok, d, e)
  \/ \E ok \in BOOLEAN : VerifyAst(ok) \/ ResolveText(ok)
  \/ \E ok, e \in BOOLEAN : CompareOrig(ok, e)

Spec == Init /\ [][Next]_rvars

(* a faithful implementation: every step succeeds and reproduces its input *)
GoodNext ==
  \/ \E d \in Digests : PrintStub(TRUE, d) \/ ParseText(TRUE, d) \/ Canonicalize(TRUE, d) \/ EncodeAst(TRUE, d)
  \/ VerifyAst(TRUE) \/ ReprintAst(TRUE, art.t1) \/ ReparseText(TRUE, art.a1, TRUE) \/ CanonText(TRUE, art.t1, TRUE)
  \/ ResolveText(TRUE) \/ CompareOrig(TRUE, TRUE)
  \/ DecodeBytes(TRUE, art.c0, TRUE) \/ ReencodeObj(TRUE, art.b1) \/ ReserializeAst(TRUE, art.b1)
  \/ SerializeAgain(TRUE, art.b1) \/ ReorderDecoded(TRUE, art.s1)
  \/ (\E d \in Digests : HashNodes(TRUE, d)) \/ ClearNodes(TRUE, art.h0, TRUE) \/ FoundNodes(TRUE, art.h0, TRUE)
GoodSpec == Init /\ [][GoodNext]_rvars

-----------------------------------------------------------------------------
(* what TLC checks on the model *)
YNU == {"y", "n", Unk}
SeqToSetRT(s) == {s[k] : k \in DOMAIN s}
TypeOK ==
  /\ line \in {"text", "bytes", "nodes"}
  /\ phase \in SeqToSetRT(TextOrder) \cup SeqToSetRT(BytesOrder) \cup SeqToSetRT(NodesOrder) \cup {"failed"}
  /\ \A f \in {"printed", "parsed", "verified", "reprinted", "reparsed", "pytdeq", "canon", "idem",
               "resolved", "compared", "origeq", "canonical", "encoded", "decoded", "deceq",
               "reencoded", "reserialized", "again", "reordered", "hashed", "cleared", "kept1",
               "found", "kept2"} : art[f] \in YNU
  /\ \A f \in {"t1", "a1", "t2", "a2", "t3", "c0", "b1", "s1", "b2", "b3", "b4", "s2", "h0", "h1", "h2"} :
       art[f] \in Digests \cup {None}

(* the protocol: an artifact exists only after the step that produces it, in pipeline order *)
Pos(order, p) == CHOOSE k \in DOMAIN order : order[k] = p
After(step) ==
  LET order == CASE line = "text" -> TextOrder [] line = "bytes" -> BytesOrder [] OTHER -> NodesOrder IN
  phase # "failed" => Pos(order, phase) >= Pos(order, step)
Protocol ==
  /\ (line = "text" /\ art.t1 # None) => After("Print")
  /\ (line = "text" /\ art.a1 # None) => After("Parse") /\ art.t1 # None
  /\ (line = "text" /\ art.t2 # None) => After("Reprint") /\ art.a1 # None
  /\ (line = "text" /\ art.a2 # None) => After("Reparse") /\ art.t2 # None
  /\ (line = "text" /\ art.t3 # None) => After("Canon")
  /\ (line = "bytes" /\ art.b1 # None) => After("Encode") /\ art.c0 # None
  /\ (line = "bytes" /\ art.s1 # None) => After("Decode") /\ art.b1 # None
  /\ (line = "bytes" /\ art.b2 # None) => After("Reencode") /\ art.s1 # None
  /\ (line = "bytes" /\ art.b3 # None) => After("Reserialize")
  /\ (line = "bytes" /\ art.b4 # None) => After("Again") /\ art.b1 # None
  /\ (line = "bytes" /\ art.s2 # None) => After("Reorder") /\ art.s1 # None
  /\ (line = "nodes" /\ art.h0 # None) => After("Hash")
  /\ (line = "nodes" /\ art.h1 # None) => After("Clear") /\ art.h0 # None
  /\ (line = "nodes" /\ art.h2 # None) => After("Found") /\ art.h0 # None
  /\ line = "text" => C12Fails(art) = {}
  /\ line # "text" => C05Fails(art) = {}
  /\ line = "bytes" => C12Fails(art) \cap {"nodehash", "clear", "moved", "lost", "found", "rehash", "dup"} = {}
  /\ line = "nodes" => C12Fails(art) \subseteq {"nodehash", "clear", "moved", "lost", "found", "rehash", "dup"}

(* under GoodSpec no clause is ever violated and nothing is noted *)
GoodIsClean == C05Fails(art) = {} /\ C12Fails(art) = {} /\ C05Notes(art) = {} /\ C12Notes(art) = {}

(* a complete run without violated clause really has every equality the properties state *)
CleanMeansFaithful ==
  /\ (line = "text" /\ phase = "Compare" /\ C05Fails(art) = {}) =>
        /\ art.t2 = art.t1 /\ art.a2 = art.a1 /\ art.parsed = "y" /\ art.verified = "y"
        /\ art.resolved = "y" /\ art.origeq = "y"
  /\ (line = "bytes" /\ phase = "Reorder" /\ C12Fails(art) = {}) =>
        /\ art.s1 = art.c0 /\ art.b2 = art.b1 /\ art.b3 = art.b1 /\ art.b4 = art.b1 /\ art.s2 = art.s1
  /\ (line = "nodes" /\ phase = "Found" /\ C12Fails(art) = {}) =>
        /\ art.h1 = art.h0 /\ art.h2 = art.h0 /\ art.kept1 = "y" /\ art.kept2 = "y"
  /\ (phase = "failed") => (C05Fails(art) \cup C12Fails(art)) # {}

(* every clause can be the only violated one (none is implied by the others): TLC records the   *)
(* singletons it meets; the POSTCONDITION requires all of them (run with -workers 1)            *)
Clauses == <<"print", "parse", "verify", "reprint", "fixpoint", "reparse", "asteq", "resolve",
             "compare", "orig", "canonical", "encode", "decode", "struct", "reencode", "bytes",
             "reserialize", "stable", "again", "repeat", "reorder", "order",
             "nodehash", "clear", "moved", "lost", "found", "rehash", "dup">>
MarkSingletons ==
  LET f == C05Fails(art) \cup C12Fails(art) IN
    (Ended /\ Cardinality(f) = 1) =>
      LET c == CHOOSE x \in f : TRUE IN TLCSet(100 + Pos(Clauses, c), TRUE)
InitMarks == \A k \in DOMAIN Clauses : TLCSet(100 + k, FALSE)
MarkSpec == (Init /\ InitMarks) /\ [][Next]_rvars
AllClausesIndependent == \A k \in DOMAIN Clauses : TLCGet(100 + k)
=============================================================================

------------------------------ MODULE TraceC01 ------------------------------
(* Code -> spec for C01: each case is one recorded run [H |-> hierarchy, slots |-> <<[k, n, t, v]>>] *)
(* walked through the phases of Soundness.tla; at phase "judged" the invariant Sound is evaluated *)
(* and every failing slot is printed (total verdict).                                            *)
EXTENDS Soundness, Json, IOUtils, TLCExt

Cases == JsonDeserialize(IOEnv.TRACE_FILE)
VARIABLES i, ph

TInit == i = 1 /\ ph = 1 /\ TLCSet(1, FALSE)
TNext ==
  /\ i <= Len(Cases)
  /\ IF ph < Len(Phases) THEN ph' = ph + 1 /\ i' = i
     ELSE ph' = 1 /\ i' = i + 1 /\ (i' > Len(Cases) => TLCSet(1, TRUE))

(* no mode: the property (Sound).  mode "final-state": the attribution predicate of            *)
(* Soundness.tla for counterfactual cases (prog = the program term, slots = the failing "ret" slots *)
(* with the return type the stub of the cut-off program declares).                                   *)
Ok == (i <= Len(Cases) /\ Phases[ph] = "judged") =>
        LET f == IF "mode" \in DOMAIN Cases[i] /\ Cases[i].mode = "final-state"
                 THEN FinalStateFails(Cases[i].H, Cases[i].prog, Cases[i].slots)
                 ELSE SlotFails(Cases[i].H, Cases[i].slots) IN
          f = {} \/ PrintT(<<"BAD", ToJson([i |-> i, fails |-> f])>>)
Done == TLCGet(1)
=============================================================================

----------------------------- MODULE Soundness -----------------------------
(* C01: inference over-approximates execution.  One analysed program is one run                *)
(*    Generate(prog) -> Execute (CPython) -> Infer (pytype) -> Judge                            *)
(* whose observable result is a table of SLOTS: every module-level name, every instance         *)
(* attribute of a module-level value, every value returned by a module-level call, each with    *)
(* the run-time value term v that occurred and the type term t the inferred stub declares.      *)
(* Sound == every observed (slot, value) is admitted by the declared type, in the soundness     *)
(* reading of Admits (PytdTypes.tla) over the program's own class hierarchy H.                  *)
EXTENDS PytdTypes

(* a slot the stub does not declare is admitted only if the stub has a module/class __getattr__ *)
(* (the driver then records the type Any); otherwise its type is the marker "missing".          *)
SlotOK(H, s) ==
  /\ s.t[1] # "missing"
  /\ AdmitsG(H, TRUE, s.t, s.v, {})

SlotFails(H, slots) == {k \in DOMAIN slots : ~SlotOK(H, slots[k])}
Sound(H, slots) == SlotFails(H, slots) = {}

(* ---- attribution of a failing "ret" slot to a documented mechanism of pytype ------------------- *)
(* pytype derives the signature a stub declares for a function from ONE analysis of its body made    *)
(* after the module body has been executed to its end: global names the body reads have the values    *)
(* of the module's FINAL state.  A value returned by a module-level call made while such a name held  *)
(* another value need not be covered.  The mechanism can explain a failing slot only if               *)
(*   ReadsRebound: some module-level name the function can read (directly, or through the functions,  *)
(*   lambdas, classes and variables it reaches) is bound again by the statement that makes the call   *)
(*   or by a later one (program terms of ProgGen.tla; `site` = index of the calling statement), and   *)
(*   the counterfactual holds: pytype's stub for the program cut off right before the calling         *)
(*   statement (whose final state is the state the call saw) declares a return type that admits the   *)
(*   value (FinalStateSlotOK below; the driver supplies that type).                                   *)
RECURSIVE FreeE(_)
FreeE(e) ==
  CASE e[1] = "lit" -> {}
    [] e[1] = "name" -> {e[2]}
    [] e[1] \in {"list", "tuple", "set"} -> UNION {FreeE(e[2][k]) : k \in DOMAIN e[2]}
    [] e[1] = "dict" -> FreeE(e[3])
    [] e[1] \in {"add", "or", "and", "cmp"} -> FreeE(e[2]) \cup FreeE(e[3])
    [] e[1] = "cond" -> FreeE(e[2]) \cup FreeE(e[3]) \cup FreeE(e[4])
    [] e[1] \in {"not", "isnone", "sub"} -> FreeE(e[2])
    [] e[1] = "isinst" -> FreeE(e[2]) \cup {e[3]}
    [] e[1] = "bcall" -> FreeE(e[3])
    [] e[1] \in {"attr", "meth"} -> FreeE(e[2])
    [] e[1] = "call" -> {e[2]} \cup UNION {FreeE(e[3][k]) : k \in DOMAIN e[3]}
    [] e[1] = "lambda" -> FreeE(e[2]) \ {"p1"}
    [] e[1] = "lcomp" -> (FreeE(e[2]) \ {"v"}) \cup FreeE(e[3])
    [] e[1] \in {"split", "dict0", "noguard"} -> {}                       \* second family of ProgGen.tla
    [] e[1] = "mx" -> FreeE(e[2]) \cup UNION {FreeE(e[4][k]) : k \in DOMAIN e[4]}
    [] e[1] = "slice" -> FreeE(e[2])

(* second family: names a pattern binds / user classes it names *)
RECURSIVE PCaps(_)
PCapsSeq(q) == UNION {PCaps(q[k]) : k \in DOMAIN q}
PCaps(p) ==
  CASE p[1] = "pcap" -> {p[2]}
    [] p[1] = "pseq" -> PCapsSeq(p[3])
    [] p[1] = "pstar" -> PCapsSeq(p[2]) \cup (IF p[3] = "_" THEN {} ELSE {p[3]}) \cup PCapsSeq(p[4])
    [] p[1] = "pmap" -> UNION {PCaps(p[2][k][2]) : k \in DOMAIN p[2]} \cup (IF p[3] = "" THEN {} ELSE {p[3]})
    [] p[1] = "pcls" -> PCapsSeq(p[3]) \cup UNION {PCaps(p[4][k][2]) : k \in DOMAIN p[4]}
    [] p[1] = "pas" -> PCaps(p[2]) \cup {p[3]}
    [] OTHER -> {}
RECURSIVE PClasses(_)
PClassesSeq(q) == UNION {PClasses(q[k]) : k \in DOMAIN q}
PClasses(p) ==
  CASE p[1] = "pseq" -> PClassesSeq(p[3])
    [] p[1] = "pstar" -> PClassesSeq(p[2]) \cup PClassesSeq(p[4])
    [] p[1] = "pmap" -> UNION {PClasses(p[2][k][2]) : k \in DOMAIN p[2]}
    [] p[1] = "pcls" -> {p[2]} \cup PClassesSeq(p[3]) \cup UNION {PClasses(p[4][k][2]) : k \in DOMAIN p[4]}
    [] p[1] = "por" -> PClasses(p[2]) \cup PClasses(p[3])
    [] p[1] = "pas" -> PClasses(p[2])
    [] OTHER -> {}
CasesReads(cs) ==
  UNION {((FreeE(cs[k][2]) \cup FreeE(cs[k][3])) \ PCaps(cs[k][1])) \cup PClasses(cs[k][1]) : k \in DOMAIN cs}
SimpleReads(s) ==         \* the one-line mutation statements
  CASE s[1] = "setitem" -> FreeE(s[2]) \cup FreeE(s[4])
    [] s[1] = "delitem" -> FreeE(s[2])
    [] s[1] = "setattr" -> FreeE(s[2]) \cup FreeE(s[4])
    [] s[1] = "augadd" -> FreeE(s[2]) \cup FreeE(s[3])
    [] s[1] = "mcall" -> FreeE(s[2]) \cup UNION {FreeE(s[4][k]) : k \in DOMAIN s[4]}
    [] s[1] = "expr" -> FreeE(s[2])
MutKinds == {"setitem", "delitem", "setattr", "augadd", "mcall", "expr"}

(* names a statement reads, when executed or when what it defines is called later *)
StmtReads(s) ==
  CASE s[1] \in MutKinds -> SimpleReads(s)
    [] s[1] = "mdef" -> (UNION {SimpleReads(s[5][k]) : k \in DOMAIN s[5]} \cup FreeE(s[6]) \cup FreeE(s[7])
                         \cup FreeE(s[8])) \ {"p1", "p2", "ps"}
    [] s[1] = "match" -> FreeE(s[3]) \cup CasesReads(s[4])
    [] s[1] = "matchdef" -> (FreeE(s[5]) \cup CasesReads(s[6]) \cup FreeE(s[7])) \ {"p1", "p2", "ps"}
    [] s[1] = "assign" -> FreeE(s[3])
    [] s[1] = "if" -> FreeE(s[2]) \cup FreeE(s[4]) \cup FreeE(s[5])
    [] s[1] = "ifonly" -> FreeE(s[2]) \cup FreeE(s[4]) \cup {s[3]}
    [] s[1] = "try" -> FreeE(s[3]) \cup FreeE(s[4])
    [] s[1] = "def" -> (FreeE(s[4]) \cup FreeE(s[5]) \cup FreeE(s[6])) \ {"p1", "p2"}
    [] s[1] = "class" ->
         SeqToSet(s[3])
         \cup UNION {FreeE(s[4][k][2]) : k \in DOMAIN s[4]}
         \cup (UNION {FreeE(s[6][k][2]) : k \in DOMAIN s[6]} \ {"p1", "self"})
         \cup (UNION {FreeE(s[7][k][2]) : k \in DOMAIN s[7]} \ {"self"})

(* the name a statement binds; a mutation statement "binds" the name the mutated object is reached *)
(* from (the object that name holds is different afterwards); an expression statement binds none   *)
RootOf(pl) == IF pl[1] = "name" THEN pl[2] ELSE pl[2][2]
Binds(s) == IF s[1] \in {"if", "ifonly"} THEN s[3]
            ELSE IF s[1] = "expr" THEN ""
            ELSE IF s[1] \in MutKinds THEN RootOf(s[2]) ELSE s[2]

(* names reachable from the names in R: closed under "read by a statement that binds a reached name" *)
RECURSIVE ReachFrom(_, _)
ReachFrom(prog, R) ==
  LET R2 == R \cup UNION {StmtReads(prog[k]) : k \in {j \in DOMAIN prog : Binds(prog[j]) \in R}}
  IN IF R2 = R THEN R ELSE ReachFrom(prog, R2)

ReadsRebound(prog, f, site) ==
  \E k \in site .. Len(prog) : Binds(prog[k]) \in ReachFrom(prog, {f})

(* s.t is here the return type declared by the stub of the program cut off before statement s.site *)
FinalStateSlotOK(H, prog, s) ==
  /\ s.k = "ret" /\ s.site >= 1
  /\ ReadsRebound(prog, s.root, s.site)
  /\ SlotOK(H, s)
FinalStateFails(H, prog, slots) == {k \in DOMAIN slots : ~FinalStateSlotOK(H, prog, slots[k])}

(* the run as a state machine: phases in order, the verdict only at the end *)
Phases == <<"generated", "executed", "inferred", "judged">>
=============================================================================

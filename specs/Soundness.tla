----------------------------- MODULE Soundness -----------------------------
(* C01: inference over-approximates execution.  One analysed program is one run                *)
(*    Generate(prog) -> Execute (CPython) -> Infer (pytype) -> Judge                            *)
(* whose observable result is a table of SLOTS: every module-level name, every instance         *)
(* attribute of a module-level value, every value returned by a module-level call, each with    *)
(* the run-time value term v that occurred and the type term t the inferred stub declares.      *)
(* Sound == every observed (slot, value) is admitted by the declared type, in the soundness     *)
(* reading of Admits (PytdTypes.tla) over the program's own class hierarchy H.                  *)
EXTENDS PytdTypes

(* a slot the stub does not declare is admitted only if the stub has a module/class __getattr__ *)
(* (the driver then records the type Any); otherwise its type is the marker "missing".          *)
SlotOK(H, s) ==
  /\ s.t[1] # "missing"
  /\ AdmitsG(H, TRUE, s.t, s.v, {})

SlotFails(H, slots) == {k \in DOMAIN slots : ~SlotOK(H, slots[k])}
Sound(H, slots) == SlotFails(H, slots) = {}

(* the run as a state machine: phases in order, the verdict only at the end *)
Phases == <<"generated", "executed", "inferred", "judged">>
=============================================================================

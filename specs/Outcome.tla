------------------------------ MODULE Outcome ------------------------------
(* C15: the analysis of one source text (pytype.io.check_or_generate_pyi) as a stage state     *)
(* machine, and the outcomes it may end in.                                                     *)
(*                                                                                              *)
(*   Read -> Directors -> Compile -> Blocks -> Fold -> Run -> Analyze                           *)
(*        -> ComputeTypes -> Optimize -> Print            (the last three only when inferring)  *)
(*                                                                                              *)
(*   Read          io.read_source_file                                                          *)
(*   Directors     directors.parse_src (ast.parse + the comment scanner; raises SyntaxError or  *)
(*                 SkipFileError)                                                               *)
(*   Compile       pyc.compile_src (raises CompileError)                                        *)
(*   Blocks        blocks.process_code                                                          *)
(*   Fold          constant_folding.fold_constants (raises ConstantError on a malformed         *)
(*                 literal such as {[]} or [*42], which CPython compiles)                       *)
(*   Run           VirtualMachine.run_bytecode (module body)                                    *)
(*   Analyze       CallTracer.analyze (second pass over all definitions)                        *)
(*   ComputeTypes  CallTracer.compute_types;  Optimize  optimize.Optimize;  Print io._output_ast*)
(*                                                                                              *)
(* (vm.run_program first calls preprocess.augment_annotations, which parses the text and        *)
(* swallows a SyntaxError; it is not a stage: an exception escaping it is an Escaped outcome.)   *)
(*                                                                                              *)
(* A stage may FAIL only as follows, and the run then ends in the outcome shown:                *)
(*   Directors / syntax   (only if CPython cannot compile the text)  -> CompileError(line)       *)
(*   Directors / skip     (only if the text carries `# pytype: skip-file`) -> Skipped            *)
(*   Compile   / syntax   (only if CPython cannot compile the text)  -> CompileError(line)       *)
(*   Fold      / constant (only if CPython compiles the text)        -> FoldError(line)          *)
(* Every other exception is an Escaped outcome, which is never acceptable.                      *)
(*                                                                                              *)
(* Sub-runs.  A string annotation (`-> 'C0'`), a type comment or a late annotation is evaluated *)
(* by abstract_utils.eval_expr: the SAME three stage functions run on the expression text,      *)
(*       Compile -> Blocks -> Run            (vm.compile_src(expr, mode="eval"); run_bytecode)  *)
(* while the module body runs (inside Run), while definitions are analysed (inside Analyze) or  *)
(* between the two (run_program resolves the late annotations after run_bytecode returns).      *)
(* Events are emitted when a stage function RETURNS, so a sub-run inside Run appears before the  *)
(* Run event (k = 5) and one inside/before Analyze before the Analyze event (k = 6).  A sub-run  *)
(* may itself trigger a sub-run from its Run (an annotation evaluated while an annotation is     *)
(* evaluated), so the sub-machine is a stack: Compile pushes, Blocks marks, Run pops.            *)
(* eval_expr catches a CompileError of the expression text (reported as an annotation error at   *)
(* the line of the annotation), so a failing sub-Compile ends that sub-run and nothing else;     *)
(* whether the *expression* compiles is independent of whether the file compiles.  Any other     *)
(* exception in a sub-run is not caught and is an Escaped outcome like everywhere else.          *)
(* The pure part (Allowed, Advance, Verdict) is what TraceC15.tla applies to recorded runs.     *)
EXTENDS Integers, Sequences, FiniteSets, TLC, Json

Stages == <<"Read", "Directors", "Compile", "Blocks", "Fold", "Run", "Analyze",
            "ComputeTypes", "Optimize", "Print">>
LastStage(mode) == IF mode = "check" THEN 7 ELSE 10
StageNo(s) == IF \E k \in DOMAIN Stages : Stages[k] = s THEN CHOOSE k \in DOMAIN Stages : Stages[k] = s ELSE 0

(* why a stage raised, as a class of exception types *)
Why(exc) == IF exc \in {"SyntaxError", "IndentationError", "TabError", "CompileError"} THEN "syntax"
            ELSE IF exc = "SkipFileError" THEN "skip"
            ELSE IF exc = "ConstantError" THEN "constant"
            ELSE "other"

(* input attributes (the oracle side): inp = [compiles, cline, nlines, skip, mode]               *)
(*   compiles : CPython's compile() accepts the text                                             *)
(*   cline    : the line compile() blames (0 = it blames none, e.g. a NUL byte)                   *)
(*   nlines   : number of lines of the text (a trailing newline opens a last, empty line)         *)

(* machine state: [k |-> main stages completed, phase |-> "run" | "end", out |-> outcome kind,   *)
(*                 sub |-> stack of open sub-runs, innermost last: "compiled" | "blocks"]         *)
Start == [k |-> 0, phase |-> "run", out |-> "none", sub |-> <<>>]

(* the window in which sub-runs occur: Fold done and Run not yet returned (5), Run returned and   *)
(* Analyze not yet returned (6)                                                                    *)
SubWindow == {5, 6}
SubStages == {"Compile", "Blocks", "Run"}
TopIs(s, v) == IF s = <<>> THEN FALSE ELSE s[Len(s)] = v    \* total (TLC splits \/ in actions)
Pop(s) == SubSeq(s, 1, Len(s) - 1)

(* does this event belong to a sub-run?  In the window every Compile/Blocks does (the main ones   *)
(* are over), and a Run does iff a sub-run is open (the main Run returns with none open).         *)
IsSub(st, ev) ==
  /\ st.phase = "run" /\ st.k \in SubWindow
  /\ \/ ev[1] \in {"Compile", "Blocks"}
     \/ ev[1] = "Run" /\ st.sub # <<>>

(* event = <<stage name, "ok" or exception type name>> *)
AllowedMain(st, inp, ev) ==
  /\ st.phase = "run"
  /\ st.sub = <<>>
  /\ st.k < LastStage(inp.mode)
  /\ ev[1] = Stages[st.k + 1]
  /\ \/ /\ ev[2] = "ok"
        /\ (ev[1] = "Compile" => inp.compiles)
        /\ (ev[1] = "Directors" => ~inp.skip)
     \/ /\ ev[1] = "Directors" /\ Why(ev[2]) = "syntax" /\ ~inp.compiles
     \/ /\ ev[1] = "Directors" /\ Why(ev[2]) = "skip" /\ inp.skip
     \/ /\ ev[1] = "Compile" /\ Why(ev[2]) = "syntax" /\ ~inp.compiles
     \/ /\ ev[1] = "Fold" /\ Why(ev[2]) = "constant" /\ inp.compiles

AllowedSub(st, ev) ==
  /\ IsSub(st, ev)
  /\ \/ /\ ev[1] = "Compile"                     \* a new sub-run starts: at top level or from a sub-Run
        /\ (st.sub = <<>> \/ TopIs(st.sub, "blocks"))
        /\ (ev[2] = "ok" \/ ev[2] = "CompileError")  \* eval_expr catches exactly pyc.CompileError
     \/ /\ ev[1] = "Blocks" /\ ev[2] = "ok"
        /\ TopIs(st.sub, "compiled")
     \/ /\ ev[1] = "Run" /\ ev[2] = "ok"
        /\ TopIs(st.sub, "blocks")

Allowed(st, inp, ev) == IF IsSub(st, ev) THEN AllowedSub(st, ev) ELSE AllowedMain(st, inp, ev)

AdvanceSub(st, ev) ==
  CASE ev[1] = "Compile" /\ ev[2] = "ok" -> [st EXCEPT !.sub = Append(st.sub, "compiled")]
    [] ev[1] = "Compile" /\ ev[2] # "ok" -> st                 \* caught: that sub-run is over
    [] ev[1] = "Blocks" -> [st EXCEPT !.sub = Append(Pop(st.sub), "blocks")]
    [] ev[1] = "Run" -> [st EXCEPT !.sub = Pop(st.sub)]

AdvanceMain(st, inp, ev) ==
  IF ev[2] = "ok"
    THEN IF st.k + 1 = LastStage(inp.mode)
           THEN [k |-> st.k + 1, phase |-> "end", out |-> "Result", sub |-> <<>>]
           ELSE [st EXCEPT !.k = st.k + 1]
    ELSE [k |-> st.k, phase |-> "end", sub |-> <<>>,
          out |-> CASE Why(ev[2]) = "syntax" -> "CompileError"
                    [] Why(ev[2]) = "skip" -> "Skipped"
                    [] Why(ev[2]) = "constant" -> "FoldError"
                    [] OTHER -> "Escaped"]

(* only applied to Allowed events *)
Advance(st, inp, ev) == IF IsSub(st, ev) THEN AdvanceSub(st, ev) ELSE AdvanceMain(st, inp, ev)

(* run the machine over a recorded event list; stops at the first event that is not allowed *)
RECURSIVE RunEvents(_, _, _, _)
RunEvents(st, inp, evs, i) ==
  IF i > Len(evs) THEN [st |-> st, stuck |-> 0]
  ELSE IF Allowed(st, inp, evs[i]) THEN RunEvents(Advance(st, inp, evs[i]), inp, evs, i + 1)
  ELSE [st |-> st, stuck |-> i]

(* what the report must look like in each terminal outcome.  errs = sequence of <<name, line>> *)
IsCompilerError(e) == e[1] = "python-compiler-error"
InFile(inp, l) == l >= 1 /\ l <= inp.nlines

ReportFails(out, inp, errs) ==
  LET n == Len(errs)
      E == {errs[j] : j \in 1 .. n} IN
  (IF out = "Escaped" THEN {"escaped"} ELSE {})
  \cup (IF ~inp.compiles /\ out \notin {"Skipped", "Escaped"}
             /\ ~(out = "CompileError" /\ n = 1 /\ IsCompilerError(errs[1]))
          THEN {"not-one-compiler-error"} ELSE {})
  \cup (IF ~inp.compiles /\ out = "CompileError" /\ n = 1 /\ inp.cline > 0 /\ errs[1][2] # inp.cline
          THEN {"blamed-line"} ELSE {})
  \cup (IF inp.compiles /\ out \notin {"Result", "FoldError", "Skipped", "Escaped"}
          THEN {"compilable-not-analysed"} ELSE {})
  \cup (IF inp.compiles /\ out = "Result" /\ \E e \in E : IsCompilerError(e)
          THEN {"compiler-error-on-compilable"} ELSE {})
  \cup (IF out = "FoldError" /\ ~(n = 1 /\ IsCompilerError(errs[1])) THEN {"fold-report"} ELSE {})
  \cup (IF out = "Skipped" /\ n # 0 THEN {"skip-report"} ELSE {})
  \cup (IF out # "Escaped"
             /\ \E e \in E : ~InFile(inp, e[2]) /\ ~(out = "CompileError" /\ inp.cline = 0)
          THEN {"line-outside-file"} ELSE {})

(* the verdict on one recorded run: c = [inp, events, crashed, errs] *)
Verdict(inp, evs, crashed, errs) ==
  LET r == RunEvents(Start, inp, evs, 1)
      out == IF crashed THEN "Escaped" ELSE r.st.out IN
  (IF r.stuck # 0 /\ ~crashed THEN {"stage-order"} ELSE {})
  \cup (IF r.stuck = 0 /\ ~crashed /\ r.st.phase # "end" THEN {"stage-order"} ELSE {})
  \cup (IF r.stuck = 0 \/ crashed THEN ReportFails(out, inp, errs) ELSE {})

(* ------------------------------------------------------------------------------------------ *)
(* The machine as a TLA+ behaviour spec: inputs (optionally mutated), all allowed runs, and the *)
(* reports the terminal outcomes admit.  TLC checks that the allowed behaviours satisfy C15 as   *)
(* stated, and exports the mutation plan (kind, slot) the driver applies to real token lists.    *)
(* ------------------------------------------------------------------------------------------ *)
CONSTANTS MaxLines, MutKinds, Slots, MaxMut, Export,
          MaxSub,        \* model bound: sub-run events per behaviour
          MaxSubDepth    \* model bound: nesting of sub-runs

VARIABLES inp, st, errs, muts, hist

vars == <<inp, st, errs, muts, hist>>

Inputs ==
  {i \in [compiles : BOOLEAN, cline : 0 .. MaxLines, nlines : 1 .. MaxLines, skip : BOOLEAN,
          mode : {"infer", "check"}] :
     /\ (i.compiles => i.cline = 0)
     /\ i.cline <= i.nlines}

Excs == {"SyntaxError", "IndentationError", "CompileError", "SkipFileError", "ConstantError"}
ErrNames == {"python-compiler-error", "attribute-error"}

Init == inp \in Inputs /\ st = [k |-> -1, phase |-> "src", out |-> "none", sub |-> <<>>] /\ errs = <<>>
        /\ muts = <<>> /\ hist = <<>>

(* Mutate(kind, slot): a token of the text is deleted / duplicated / swapped with its neighbour / *)
(* preceded by a stray token; the result is some text whose attributes are unconstrained.         *)
Mutate(kind, slot) ==
  /\ st.phase = "src" /\ Len(muts) < MaxMut
  /\ inp' \in {i \in Inputs : i.mode = inp.mode}
  /\ muts' = Append(muts, <<kind, slot>>)
  /\ UNCHANGED <<st, errs, hist>>

Begin == st.phase = "src" /\ st' = Start /\ UNCHANGED <<inp, errs, muts, hist>>

(* hist records <<stage, status, "main" | "sub">>; Verdict reads the first two components only *)
Stage ==
  /\ st.phase = "run"
  /\ st.k < Len(Stages)
  /\ \E ev \in ({Stages[st.k + 1]} \X ({"ok"} \cup Excs)) :
       /\ ~IsSub(st, ev)
       /\ Allowed(st, inp, ev)
       /\ st' = Advance(st, inp, ev)
       /\ hist' = Append(hist, <<ev[1], ev[2], "main">>)
  /\ UNCHANGED <<inp, errs, muts>>

NSub == Cardinality({j \in DOMAIN hist : hist[j][3] = "sub"})

(* one step of a sub-run (annotation / type-comment evaluation) *)
SubStage ==
  /\ st.phase = "run"
  /\ NSub < MaxSub
  /\ \E ev \in (SubStages \X ({"ok"} \cup Excs)) :
       /\ IsSub(st, ev)
       /\ Allowed(st, inp, ev)
       /\ (ev = <<"Compile", "ok">> => Len(st.sub) < MaxSubDepth)
       /\ st' = Advance(st, inp, ev)
       /\ hist' = Append(hist, <<ev[1], ev[2], "sub">>)
  /\ UNCHANGED <<inp, errs, muts>>

(* the report the code attaches to a terminal outcome (errorlog) *)
Report ==
  /\ st.phase = "end" /\ errs = <<>>
  /\ \/ /\ st.out = "CompileError"
        /\ \E l \in 0 .. inp.nlines :
             /\ (inp.cline > 0 => l = inp.cline)
             /\ errs' = << <<"python-compiler-error", l>> >>
     \/ /\ st.out = "FoldError"
        /\ \E l \in 1 .. inp.nlines : errs' = << <<"python-compiler-error", l>> >>
     \/ /\ st.out = "Result"
        /\ \E l \in 1 .. inp.nlines : errs' = << <<"attribute-error", l>> >>
  /\ st' = [st EXCEPT !.phase = "reported"]
  /\ UNCHANGED <<inp, muts, hist>>

NoReport == st.phase = "end" /\ st.out \in {"Result", "Skipped"} /\ st' = [st EXCEPT !.phase = "reported"]
            /\ UNCHANGED <<inp, errs, muts, hist>>

Next == (\E k \in MutKinds, s \in Slots : Mutate(k, s)) \/ Begin \/ Stage \/ SubStage \/ Report \/ NoReport
Spec == Init /\ [][Next]_vars

(* C15 on the machine *)
Terminal == st.phase = "reported"
NeverEscapes == st.out # "Escaped"
Ev2(h) == [j \in DOMAIN h |-> <<h[j][1], h[j][2]>>]
Accepts == Terminal => Verdict(inp, Ev2(hist), FALSE, errs) = {}
NotCompilable == (Terminal /\ ~inp.compiles /\ st.out # "Skipped") =>
                   /\ st.out = "CompileError" /\ Len(errs) = 1 /\ errs[1][1] = "python-compiler-error"
                   /\ (inp.cline > 0 => errs[1][2] = inp.cline)
Compilable == (Terminal /\ inp.compiles) => st.out \in {"Result", "FoldError", "Skipped"}
LinesInFile == Terminal => \A j \in DOMAIN errs :
                 InFile(inp, errs[j][2]) \/ (st.out = "CompileError" /\ inp.cline = 0)
FailOnlyWhereAllowed ==
  \A j \in DOMAIN hist : hist[j][2] # "ok" =>
     \/ hist[j][3] = "main" /\ hist[j][1] \in {"Directors", "Compile", "Fold"}
     \/ hist[j][3] = "sub" /\ hist[j][1] = "Compile" /\ hist[j][2] = "CompileError"
(* the main stages occur in pipeline order, each at most once *)
MainHist == SelectSeq(hist, LAMBDA e : e[3] = "main")
StagesInOrder == \A j \in DOMAIN MainHist : MainHist[j][1] = Stages[j]
(* sub-run events occur only after Fold and before Analyze has returned, and are well nested:    *)
(* every main stage event is emitted with no sub-run open, and a result has none open             *)
MainBefore(j) == Cardinality({m \in 1 .. j - 1 : hist[m][3] = "main" /\ hist[m][2] = "ok"})
SubRunsInWindow == \A j \in DOMAIN hist : hist[j][3] = "sub" => MainBefore(j) \in SubWindow
SubRunsClosed == (st.phase \in {"end", "reported"} /\ st.out = "Result") => st.sub = <<>>
SubRunsNested ==
  /\ \A d \in DOMAIN st.sub : d < Len(st.sub) => st.sub[d] = "blocks"   \* only the innermost can be compiling
  /\ (st.sub # <<>> => st.k \in SubWindow)

ExportInv ==
  (Export /\ st.phase = "run" /\ st.k = 0) => PrintT(<<"CASE", ToJson([muts |-> muts, mode |-> inp.mode])>>)
=============================================================================

------------------------------ MODULE Outcome ------------------------------
(* C15: the analysis of one source text (pytype.io.check_or_generate_pyi) as a stage state     *)
(* machine, and the outcomes it may end in.                                                     *)
(*                                                                                              *)
(*   Read -> Directors -> Compile -> Blocks -> Fold -> Run -> Analyze                           *)
(*        -> ComputeTypes -> Optimize -> Print            (the last three only when inferring)  *)
(*                                                                                              *)
(*   Read          io.read_source_file                                                          *)
(*   Directors     directors.parse_src (ast.parse + the comment scanner; raises SyntaxError or  *)
(*                 SkipFileError)                                                               *)
(*   Compile       pyc.compile_src (raises CompileError)                                        *)
(*   Blocks        blocks.process_code                                                          *)
(*   Fold          constant_folding.fold_constants (raises ConstantError on a malformed         *)
(*                 literal such as {[]} or [*42], which CPython compiles)                       *)
(*   Run           VirtualMachine.run_bytecode (module body)                                    *)
(*   Analyze       CallTracer.analyze (second pass over all definitions)                        *)
(*   ComputeTypes  CallTracer.compute_types;  Optimize  optimize.Optimize;  Print io._output_ast*)
(*                                                                                              *)
(* (vm.run_program first calls preprocess.augment_annotations, which parses the text and        *)
(* swallows a SyntaxError; it is not a stage: an exception escaping it is an Escaped outcome.    *)
(* It REWRITES the text - ` = ...` after every bare annotation inside a function - and every     *)
(* later stage sees the rewritten text; `nlines`, `cline` and the reported lines are all lines of *)
(* the text AS GIVEN, so the rewrite must keep every line where it is: the composed texts and the *)
(* exotic characters of the planned families below exercise exactly that.)                        *)
(*                                                                                              *)
(* A stage may FAIL only as follows, and the run then ends in the outcome shown:                *)
(*   Directors / syntax   (only if CPython cannot compile the text)  -> CompileError(line)       *)
(*   Directors / skip     (only if the text carries `# pytype: skip-file`) -> Skipped            *)
(*   Compile   / syntax   (only if CPython cannot compile the text)  -> CompileError(line)       *)
(*   Fold      / constant (only if CPython compiles the text)        -> FoldError(line)          *)
(* Every other exception is an Escaped outcome, which is never acceptable.                      *)
(*                                                                                              *)
(* Sub-runs.  A string annotation (`-> 'C0'`), a type comment or a late annotation is evaluated *)
(* by abstract_utils.eval_expr: the SAME three stage functions run on the expression text,      *)
(*       Compile -> Blocks -> Run            (vm.compile_src(expr, mode="eval"); run_bytecode)  *)
(* while the module body runs (inside Run), while definitions are analysed (inside Analyze) or  *)
(* between the two (run_program resolves the late annotations after run_bytecode returns).      *)
(* Events are emitted when a stage function RETURNS, so a sub-run inside Run appears before the  *)
(* Run event (k = 5) and one inside/before Analyze before the Analyze event (k = 6).  A sub-run  *)
(* may itself trigger a sub-run from its Run (an annotation evaluated while an annotation is     *)
(* evaluated), so the sub-machine is a stack: Compile pushes, Blocks marks, Run pops.            *)
(* eval_expr catches a CompileError of the expression text (reported as ONE                       *)
(* python-compiler-error at the line of the annotation, inside a Result: see ReportFails), so a   *)
(* failing sub-Compile ends that sub-run and nothing else;                                        *)
(* whether the *expression* compiles is independent of whether the file compiles.  Any other     *)
(* exception in a sub-run is not caught and is an Escaped outcome like everywhere else.          *)
(* The pure part (Allowed, Advance, Verdict) is what TraceC15.tla applies to recorded runs.     *)
EXTENDS Integers, Sequences, FiniteSets, TLC, Json

Stages == <<"Read", "Directors", "Compile", "Blocks", "Fold", "Run", "Analyze",
            "ComputeTypes", "Optimize", "Print">>
LastStage(mode) == IF mode = "check" THEN 7 ELSE 10
StageNo(s) == IF \E k \in DOMAIN Stages : Stages[k] = s THEN CHOOSE k \in DOMAIN Stages : Stages[k] = s ELSE 0

(* why a stage raised, as a class of exception types *)
Why(exc) == IF exc \in {"SyntaxError", "IndentationError", "TabError", "CompileError"} THEN "syntax"
            ELSE IF exc = "SkipFileError" THEN "skip"
            ELSE IF exc = "ConstantError" THEN "constant"
            ELSE "other"

(* input attributes (the oracle side): inp = [compiles, cline, nlines, skip, mode]               *)
(*   compiles : CPython's compile() accepts the text                                             *)
(*   cline    : the line compile() blames (0 = it blames none, e.g. a NUL byte)                   *)
(*   nlines   : number of lines of the text (a trailing newline opens a last, empty line); lines   *)
(*              are CPython's: they end at LF (CR LF); FF VT FS GS RS NEL LS PS do not end a line  *)

(* machine state: [k |-> main stages completed, phase |-> "run" | "end", out |-> outcome kind,   *)
(*                 sub |-> stack of open sub-runs, innermost last: "compiled" | "blocks"]         *)
Start == [k |-> 0, phase |-> "run", out |-> "none", sub |-> <<>>]

(* the window in which sub-runs occur: Fold done and Run not yet returned (5), Run returned and   *)
(* Analyze not yet returned (6)                                                                    *)
SubWindow == {5, 6}
SubStages == {"Compile", "Blocks", "Run"}
TopIs(s, v) == IF s = <<>> THEN FALSE ELSE s[Len(s)] = v    \* total (TLC splits \/ in actions)
Pop(s) == SubSeq(s, 1, Len(s) - 1)

(* does this event belong to a sub-run?  In the window every Compile/Blocks does (the main ones   *)
(* are over), and a Run does iff a sub-run is open (the main Run returns with none open).         *)
IsSub(st, ev) ==
  /\ st.phase = "run" /\ st.k \in SubWindow
  /\ \/ ev[1] \in {"Compile", "Blocks"}
     \/ ev[1] = "Run" /\ st.sub # <<>>

(* event = <<stage name, "ok" or exception type name>> *)
AllowedMain(st, inp, ev) ==
  /\ st.phase = "run"
  /\ st.sub = <<>>
  /\ st.k < LastStage(inp.mode)
  /\ ev[1] = Stages[st.k + 1]
  /\ \/ /\ ev[2] = "ok"
        /\ (ev[1] = "Compile" => inp.compiles)
        /\ (ev[1] = "Directors" => ~inp.skip)
     \/ /\ ev[1] = "Directors" /\ Why(ev[2]) = "syntax" /\ ~inp.compiles
     \/ /\ ev[1] = "Directors" /\ Why(ev[2]) = "skip" /\ inp.skip
     \/ /\ ev[1] = "Compile" /\ Why(ev[2]) = "syntax" /\ ~inp.compiles
     \/ /\ ev[1] = "Fold" /\ Why(ev[2]) = "constant" /\ inp.compiles

AllowedSub(st, ev) ==
  /\ IsSub(st, ev)
  /\ \/ /\ ev[1] = "Compile"                     \* a new sub-run starts: at top level or from a sub-Run
        /\ (st.sub = <<>> \/ TopIs(st.sub, "blocks"))
        /\ (ev[2] = "ok" \/ ev[2] = "CompileError")  \* eval_expr catches exactly pyc.CompileError
     \/ /\ ev[1] = "Blocks" /\ ev[2] = "ok"
        /\ TopIs(st.sub, "compiled")
     \/ /\ ev[1] = "Run" /\ ev[2] = "ok"
        /\ TopIs(st.sub, "blocks")

Allowed(st, inp, ev) == IF IsSub(st, ev) THEN AllowedSub(st, ev) ELSE AllowedMain(st, inp, ev)

AdvanceSub(st, ev) ==
  CASE ev[1] = "Compile" /\ ev[2] = "ok" -> [st EXCEPT !.sub = Append(st.sub, "compiled")]
    [] ev[1] = "Compile" /\ ev[2] # "ok" -> st                 \* caught: that sub-run is over
    [] ev[1] = "Blocks" -> [st EXCEPT !.sub = Append(Pop(st.sub), "blocks")]
    [] ev[1] = "Run" -> [st EXCEPT !.sub = Pop(st.sub)]

AdvanceMain(st, inp, ev) ==
  IF ev[2] = "ok"
    THEN IF st.k + 1 = LastStage(inp.mode)
           THEN [k |-> st.k + 1, phase |-> "end", out |-> "Result", sub |-> <<>>]
           ELSE [st EXCEPT !.k = st.k + 1]
    ELSE [k |-> st.k, phase |-> "end", sub |-> <<>>,
          out |-> CASE Why(ev[2]) = "syntax" -> "CompileError"
                    [] Why(ev[2]) = "skip" -> "Skipped"
                    [] Why(ev[2]) = "constant" -> "FoldError"
                    [] OTHER -> "Escaped"]

(* only applied to Allowed events *)
Advance(st, inp, ev) == IF IsSub(st, ev) THEN AdvanceSub(st, ev) ELSE AdvanceMain(st, inp, ev)

(* run the machine over a recorded event list; stops at the first event that is not allowed *)
RECURSIVE RunEvents(_, _, _, _)
RunEvents(st, inp, evs, i) ==
  IF i > Len(evs) THEN [st |-> st, stuck |-> 0]
  ELSE IF Allowed(st, inp, evs[i]) THEN RunEvents(Advance(st, inp, evs[i]), inp, evs, i + 1)
  ELSE [st |-> st, stuck |-> i]

(* what the report must look like in each terminal outcome.  errs = sequence of <<name, line>> *)
IsCompilerError(e) == e[1] = "python-compiler-error"
InFile(inp, l) == l >= 1 /\ l <= inp.nlines

(* ncaught = number of sub-runs whose Compile failed and was caught by eval_expr (a string         *)
(* annotation / type comment whose text is not an expression): each is reported as ONE             *)
(* python-compiler-error at the line of the annotation, inside a Result - the file itself compiles  *)
ReportFails(out, inp, errs, ncaught) ==
  LET n == Len(errs)
      E == {errs[j] : j \in 1 .. n} IN
  (IF out = "Escaped" THEN {"escaped"} ELSE {})
  \cup (IF ~inp.compiles /\ out \notin {"Skipped", "Escaped"}
             /\ ~(out = "CompileError" /\ n = 1 /\ IsCompilerError(errs[1]))
          THEN {"not-one-compiler-error"} ELSE {})
  \cup (IF ~inp.compiles /\ out = "CompileError" /\ n = 1 /\ inp.cline > 0 /\ errs[1][2] # inp.cline
          THEN {"blamed-line"} ELSE {})
  \cup (IF inp.compiles /\ out \notin {"Result", "FoldError", "Skipped", "Escaped"}
          THEN {"compilable-not-analysed"} ELSE {})
  \cup (IF inp.compiles /\ out = "Result"
             /\ Cardinality({j \in 1 .. n : IsCompilerError(errs[j])}) > ncaught
          THEN {"compiler-error-on-compilable"} ELSE {})
  \cup (IF out = "FoldError" /\ ~(n = 1 /\ IsCompilerError(errs[1])) THEN {"fold-report"} ELSE {})
  \cup (IF out = "Skipped" /\ n # 0 THEN {"skip-report"} ELSE {})
  \cup (IF out # "Escaped"
             /\ \E e \in E : ~InFile(inp, e[2]) /\ ~(out = "CompileError" /\ inp.cline = 0)
          THEN {"line-outside-file"} ELSE {})

(* in an accepted run every Compile event with status CompileError is a caught sub-run failure    *)
(* (a failing main Compile ends the run as CompileError, where this number is not used)            *)
NCaught(evs) == Cardinality({j \in DOMAIN evs : evs[j][1] = "Compile" /\ evs[j][2] = "CompileError"})

(* the verdict on one recorded run: c = [inp, events, crashed, errs] *)
Verdict(inp, evs, crashed, errs) ==
  LET r == RunEvents(Start, inp, evs, 1)
      out == IF crashed THEN "Escaped" ELSE r.st.out IN
  (IF r.stuck # 0 /\ ~crashed THEN {"stage-order"} ELSE {})
  \cup (IF r.stuck # 0 /\ ~crashed /\ inp.compiles /\ ~IsSub(r.st, evs[r.stuck])
             /\ evs[r.stuck][1] \in {"Directors", "Compile"} /\ Why(evs[r.stuck][2]) = "syntax"
          THEN {"compiler-error-on-compilable"} ELSE {})   \* the main Directors/Compile stage rejects a text CPython compiles
  \cup (IF r.stuck = 0 /\ ~crashed /\ r.st.phase # "end" THEN {"stage-order"} ELSE {})
  \cup (IF r.stuck = 0 \/ crashed THEN ReportFails(out, inp, errs, NCaught(evs)) ELSE {})

(* ------------------------------------------------------------------------------------------ *)
(* Spec-planned input families (strengthening): WHICH texts are analysed is decided here, the   *)
(* driver only renders the plans into source text and replays them into pytype.                  *)
(*                                                                                              *)
(* (1) error classes.  ErrorClasses is the catalogue of error names of pytype/errors/errors.py   *)
(* PINNED at the commit the check was written for (not read from the code under test).           *)
(* ProvokeTable gives, for every class (and for every formatter method that shares a class        *)
(* name), one small text that provokes it, so that the message-formatting code of every class     *)
(* runs; deps are stub files the text imports, opts option flags set to TRUE.                      *)
(* ------------------------------------------------------------------------------------------ *)
ErrorClasses == {
  "annotation-type-mismatch", "assert-type", "attribute-error", "bad-concrete-type",
  "bad-function-defaults", "bad-return-type", "bad-slots", "bad-unpacking",
  "bad-yield-annotation", "base-class-error", "container-type-mismatch", "dataclass-error",
  "duplicate-keyword-argument", "final-error", "ignored-abstractmethod", "ignored-metaclass",
  "ignored-type-comment", "import-error", "incomplete-match", "invalid-annotation",
  "invalid-directive", "invalid-function-definition", "invalid-function-type-comment", "invalid-namedtuple-arg",
  "invalid-signature-mutation", "invalid-super-call", "invalid-typevar", "late-directive",
  "match-error", "missing-parameter", "module-attr", "mro-error",
  "name-error", "not-callable", "not-indexable", "not-instantiable",
  "not-supported-yet", "not-writable", "override-error", "paramspec-error",
  "pyi-error", "python-compiler-error", "recursion-error", "redundant-function-type-comment",
  "redundant-match", "reveal-type", "signature-mismatch", "typed-dict-error",
  "unbound-type-param", "unsupported-operands", "wrong-arg-count", "wrong-arg-types",
  "wrong-keyword-args"
}

ProvokeTable == <<
  [id |-> "attribute-error", want |-> "attribute-error",
   src |-> "x = 1\nx.foo\n",
   deps |-> <<>>, opts |-> <<>>],
  [id |-> "not-writable", want |-> "not-writable",
   src |-> "class A:\n  __slots__ = ('a',)\nA().b = 1\n",
   deps |-> <<>>, opts |-> <<>>],
  [id |-> "module-attr", want |-> "module-attr",
   src |-> "import os\nos.nope\n",
   deps |-> <<>>, opts |-> <<>>],
  [id |-> "unbound-type-param", want |-> "unbound-type-param",
   src |-> "import gen_a\ndef f():\n  return gen_a.A.x\n",
   deps |-> <<<<"gen_a.pyi", "from typing import Generic, TypeVar\nT = TypeVar('T')\nclass A(Generic[T]):\n  x = ...  # type: T\n">>>>, opts |-> <<>>],
  [id |-> "name-error", want |-> "name-error",
   src |-> "x = undefined_name\n",
   deps |-> <<>>, opts |-> <<>>],
  [id |-> "import-error", want |-> "import-error",
   src |-> "import nonexistent_module\n",
   deps |-> <<>>, opts |-> <<>>],
  [id |-> "wrong-arg-count", want |-> "wrong-arg-count",
   src |-> "def f(a): pass\nf(1, 2)\n",
   deps |-> <<>>, opts |-> <<>>],
  [id |-> "wrong-arg-types", want |-> "wrong-arg-types",
   src |-> "def f(a: int): pass\nf('s')\n",
   deps |-> <<>>, opts |-> <<>>],
  [id |-> "wrong-keyword-args", want |-> "wrong-keyword-args",
   src |-> "def f(a): pass\nf(1, zz=2)\n",
   deps |-> <<>>, opts |-> <<>>],
  [id |-> "missing-parameter", want |-> "missing-parameter",
   src |-> "def f(a): pass\nf()\n",
   deps |-> <<>>, opts |-> <<>>],
  [id |-> "not-callable", want |-> "not-callable",
   src |-> "x = 1\nx()\n",
   deps |-> <<>>, opts |-> <<>>],
  [id |-> "not-indexable", want |-> "not-indexable",
   src |-> "y = list[0]\n",
   deps |-> <<>>, opts |-> <<>>],
  [id |-> "not-instantiable", want |-> "not-instantiable",
   src |-> "import abc\nclass A(abc.ABC):\n  @abc.abstractmethod\n  def f(self): ...\nA()\n",
   deps |-> <<>>, opts |-> <<>>],
  [id |-> "ignored-abstractmethod", want |-> "ignored-abstractmethod",
   src |-> "import abc\nclass A:\n  @abc.abstractmethod\n  def f(self): ...\n",
   deps |-> <<>>, opts |-> <<>>],
  [id |-> "ignored-metaclass", want |-> "ignored-metaclass",
   src |-> "class A:\n  __metaclass__ = type\n",
   deps |-> <<>>, opts |-> <<>>],
  [id |-> "duplicate-keyword-argument", want |-> "duplicate-keyword-argument",
   src |-> "def f(a): pass\nf(1, a=2)\n",
   deps |-> <<>>, opts |-> <<>>],
  [id |-> "invalid-super-call", want |-> "invalid-super-call",
   src |-> "def f():\n  return super().f()\nf()\n",
   deps |-> <<>>, opts |-> <<>>],
  [id |-> "base-class-error", want |-> "base-class-error",
   src |-> "class A(1): pass\n",
   deps |-> <<>>, opts |-> <<>>],
  [id |-> "bad-return-type", want |-> "bad-return-type",
   src |-> "def f() -> int:\n  return 's'\n",
   deps |-> <<>>, opts |-> <<>>],
  [id |-> "bad-return-type/any", want |-> "bad-return-type",
   src |-> "def f(x):\n  return x.foo\n",
   deps |-> <<>>, opts |-> <<"no_return_any">>],
  [id |-> "bad-yield-annotation", want |-> "bad-yield-annotation",
   src |-> "def f() -> int:\n  yield 1\n",
   deps |-> <<>>, opts |-> <<>>],
  [id |-> "bad-concrete-type", want |-> "bad-concrete-type",
   src |-> "from typing import TypeVar, Generic\nT = TypeVar('T', int, str)\nclass A(Generic[T]): pass\nx: A[float] = None\n",
   deps |-> <<>>, opts |-> <<>>],
  [id |-> "unsupported-operands", want |-> "unsupported-operands",
   src |-> "x = 1 + 's'\n",
   deps |-> <<>>, opts |-> <<>>],
  [id |-> "invalid-annotation", want |-> "invalid-annotation",
   src |-> "def f(x: 1): pass\n",
   deps |-> <<>>, opts |-> <<>>],
  [id |-> "invalid-annotation/count", want |-> "invalid-annotation",
   src |-> "from typing import List\nx: List[int, str] = None\n",
   deps |-> <<>>, opts |-> <<>>],
  [id |-> "mro-error", want |-> "mro-error",
   src |-> "class A: pass\nclass B(A): pass\nclass C(A, B): pass\n",
   deps |-> <<>>, opts |-> <<>>],
  [id |-> "invalid-directive", want |-> "invalid-directive",
   src |-> "x = 1  # pytype: disable=nonsense-error\n",
   deps |-> <<>>, opts |-> <<>>],
  [id |-> "late-directive", want |-> "late-directive",
   src |-> "def f():\n  x = 1\n  # pytype: disable=name-error\n  return x\n",
   deps |-> <<>>, opts |-> <<>>],
  [id |-> "not-supported-yet", want |-> "not-supported-yet",
   src |-> "from typing import TypeVarTuple\nTs = TypeVarTuple('Ts')\n",
   deps |-> <<>>, opts |-> <<>>],
  [id |-> "python-compiler-error", want |-> "python-compiler-error",
   src |-> "x = (\n",
   deps |-> <<>>, opts |-> <<>>],
  [id |-> "recursion-error", want |-> "recursion-error",
   src |-> "import rec_a\nv = rec_a.A()\n",
   deps |-> <<<<"rec_a.pyi", "class A(B): ...\nclass B(A): ...\n">>>>, opts |-> <<>>],
  [id |-> "redundant-function-type-comment", want |-> "redundant-function-type-comment",
   src |-> "def f(x: int) -> int:\n  # type: (int) -> int\n  return x\n",
   deps |-> <<>>, opts |-> <<>>],
  [id |-> "invalid-function-type-comment", want |-> "invalid-function-type-comment",
   src |-> "def f(x):\n  # type: (int, int) -> int\n  return x\n",
   deps |-> <<>>, opts |-> <<>>],
  [id |-> "ignored-type-comment", want |-> "ignored-type-comment",
   src |-> "def f():\n  x = 1\n  # type: int\n  return x\n",
   deps |-> <<>>, opts |-> <<>>],
  [id |-> "invalid-typevar", want |-> "invalid-typevar",
   src |-> "from typing import TypeVar\nT = TypeVar(1)\n",
   deps |-> <<>>, opts |-> <<>>],
  [id |-> "invalid-namedtuple-arg", want |-> "invalid-namedtuple-arg",
   src |-> "import collections\nP = collections.namedtuple('P', ['a', 'a'])\n",
   deps |-> <<>>, opts |-> <<>>],
  [id |-> "bad-function-defaults", want |-> "bad-function-defaults",
   src |-> "def f(a): pass\nf.__defaults__ = 1\n",
   deps |-> <<>>, opts |-> <<>>],
  [id |-> "bad-slots", want |-> "bad-slots",
   src |-> "class A:\n  __slots__ = (1, 2)\n",
   deps |-> <<>>, opts |-> <<>>],
  [id |-> "bad-unpacking", want |-> "bad-unpacking",
   src |-> "a, b = (1, 2, 3)\n",
   deps |-> <<>>, opts |-> <<>>],
  [id |-> "bad-unpacking/nondet", want |-> "bad-unpacking",
   src |-> "a, b = {1, 2}\n",
   deps |-> <<>>, opts |-> <<>>],
  [id |-> "reveal-type", want |-> "reveal-type",
   src |-> "x = 1\nreveal_type(x)\n",
   deps |-> <<>>, opts |-> <<>>],
  [id |-> "assert-type", want |-> "assert-type",
   src |-> "x = 1\nassert_type(x, str)\n",
   deps |-> <<>>, opts |-> <<>>],
  [id |-> "annotation-type-mismatch", want |-> "annotation-type-mismatch",
   src |-> "x: int = 's'\n",
   deps |-> <<>>, opts |-> <<>>],
  [id |-> "container-type-mismatch", want |-> "container-type-mismatch",
   src |-> "from typing import List\nx: List[int] = []\nx.append('s')\n",
   deps |-> <<>>, opts |-> <<>>],
  [id |-> "invalid-function-definition", want |-> "invalid-function-definition",
   src |-> "import dataclasses\n@dataclasses.dataclass\nclass A:\n  x: int = 1\n  y: str\n",
   deps |-> <<>>, opts |-> <<>>],
  [id |-> "invalid-signature-mutation", want |-> "invalid-signature-mutation",
   src |-> "import np_a as np\ndef g(matrix: np.ndarray):\n  matrix = matrix[None, :]\n",
   deps |-> <<<<"_typing_a.pyi", "from typing import Any\nNDArray: Any\n">>, <<"np_a.pyi", "from _typing_a import NDArray\nfrom typing import Any, Generic, TypeVar\n_T1 = TypeVar('_T1')\n_T2 = TypeVar('_T2')\nclass ndarray(Generic[_T1, _T2]):\n  def __getitem__(self: NDArray[Any], key: str) -> NDArray[Any]: ...\n">>>>, opts |-> <<>>],
  [id |-> "typed-dict-error", want |-> "typed-dict-error",
   src |-> "from typing import TypedDict\nclass A(TypedDict):\n  x: int\na = A(x=1)\na['y'] = 2\n",
   deps |-> <<>>, opts |-> <<>>],
  [id |-> "final-error", want |-> "final-error",
   src |-> "from typing import Final\nx: Final = 1\nx = 2\n",
   deps |-> <<>>, opts |-> <<>>],
  [id |-> "final-error/override", want |-> "final-error",
   src |-> "from typing import final\nclass A:\n  @final\n  def f(self): pass\nclass B(A):\n  def f(self): pass\n",
   deps |-> <<>>, opts |-> <<>>],
  [id |-> "final-error/subclass", want |-> "final-error",
   src |-> "from typing import final\n@final\nclass A: pass\nclass B(A): pass\n",
   deps |-> <<>>, opts |-> <<>>],
  [id |-> "final-error/decorator", want |-> "final-error",
   src |-> "from typing import final\n@final\ndef f(): pass\n",
   deps |-> <<>>, opts |-> <<>>],
  [id |-> "final-error/type", want |-> "final-error",
   src |-> "from typing import Final, List\nx: List[Final[int]] = []\n",
   deps |-> <<>>, opts |-> <<>>],
  [id |-> "signature-mismatch", want |-> "signature-mismatch",
   src |-> "class A:\n  def f(self, a): pass\nclass B(A):\n  def f(self): pass\n",
   deps |-> <<>>, opts |-> <<>>],
  [id |-> "match-error", want |-> "match-error",
   src |-> "class A:\n  __match_args__ = ('a',)\n  a = 1\ndef f(x: A):\n  match x:\n    case A(1, 2): pass\n",
   deps |-> <<>>, opts |-> <<>>],
  [id |-> "incomplete-match", want |-> "incomplete-match",
   src |-> "from enum import Enum\nclass E(Enum):\n  A = 1\n  B = 2\ndef f(x: E):\n  match x:\n    case E.A:\n      return 1\n",
   deps |-> <<>>, opts |-> <<>>],
  [id |-> "redundant-match", want |-> "redundant-match",
   src |-> "import enum\nclass E(enum.Enum):\n  A = 1\n  B = 2\ndef f(x: E):\n  match x:\n    case E.A: return 1\n    case E.A: return 2\n    case _: return 3\n",
   deps |-> <<>>, opts |-> <<>>],
  [id |-> "paramspec-error", want |-> "paramspec-error",
   src |-> "from typing import ParamSpec, Callable\nP = ParamSpec('P')\ndef f(x: Callable[P, int], *args: P.args): pass\n",
   deps |-> <<>>, opts |-> <<>>],
  [id |-> "dataclass-error", want |-> "dataclass-error",
   src |-> "import dataclasses\n@dataclasses.dataclass\nclass A:\n  x: dataclasses.KW_ONLY\n  y: dataclasses.KW_ONLY\n",
   deps |-> <<>>, opts |-> <<>>],
  [id |-> "override-error", want |-> "override-error",
   src |-> "from typing_extensions import override\nclass A: pass\nclass B(A):\n  @override\n  def f(self): pass\n",
   deps |-> <<>>, opts |-> <<>>],
  [id |-> "override-error/missing", want |-> "override-error",
   src |-> "class A:\n  def f(self): pass\nclass B(A):\n  def f(self): pass\n",
   deps |-> <<>>, opts |-> <<"require_override_decorator">>],
  [id |-> "pyi-error", want |-> "pyi-error",
   src |-> "import bad_a\n",
   deps |-> <<<<"bad_a.pyi", "def f() -> int: ...\nclass f: ...\n">>>>, opts |-> <<>>]
>>

ProvokeWants == {ProvokeTable[k].want : k \in DOMAIN ProvokeTable}

(* (2) ill-typed calls.  A callable shape x a call shape; the binding faults of the call are      *)
(* computed here from the language's binding rules (confirmed against CPython by the driver on    *)
(* every enumerated call) and named by the error class pytype reports for them, so that every     *)
(* reporting path of a failed call runs with every argument-list shape, the empty one included.   *)
CallKinds == {"def", "lambda", "method", "method-cls", "static", "static-cls", "classm", "classm-cls", "ctor"}
Values == {"int", "none", "str", "list", "module"}             \* objects that are not callable
ParamNames == {"self", "cls", "a", "b"}
Ordinary == {"a", "b"}
ParamLists == {<<>>} \cup {<<x>> : x \in ParamNames}
              \cup {<<p[1], p[2]>> : p \in {q \in ParamNames \X ParamNames : q[1] # q[2]}}
B2N(b) == IF b THEN 1 ELSE 0
(* kind, parameter names, default on the last parameter, *args, **kw, a required keyword-only       *)
(* parameter k, `: int` on the ordinary parameters; val is used by the kind "value" only            *)
Callables ==
  {c \in [kind : CallKinds, ps : ParamLists, dflt : BOOLEAN, star : BOOLEAN, kw : BOOLEAN,
          kwonly : BOOLEAN, ann : BOOLEAN, val : {""}] :
     /\ (c.dflt => c.ps # <<>>)
     /\ (c.ann => c.kind # "lambda" /\ \E j \in DOMAIN c.ps : c.ps[j] \in Ordinary)}
  \cup {[kind |-> "value", ps |-> <<>>, dflt |-> FALSE, star |-> FALSE, kw |-> FALSE, kwonly |-> FALSE,
         ann |-> FALSE, val |-> v] : v \in Values}
FlagIndex(c) == B2N(c.dflt) + 2 * B2N(c.star) + 4 * B2N(c.kw) + 8 * B2N(c.kwonly) + 16 * B2N(c.ann)
NFlagSets == 32

(* a call passes npos positionals (the values 1, 's', None in this order) and the keywords kws:     *)
(* "first" = the first parameter's name (= 's'), "zz" = a name no parameter has, "k"                 *)
KwPool(c) == IF c.ps = <<>> THEN {"zz", "k"} ELSE {"first", "zz", "k"}
CallsOf(c) == IF c.kind = "value" THEN {[npos |-> n, kws |-> {}] : n \in 0 .. 1}
              ELSE {[npos |-> n, kws |-> K] : n \in 0 .. 3, K \in SUBSET KwPool(c)}
Receiver(c) == B2N(c.kind \in {"method", "classm", "classm-cls", "ctor"})   \* the callee gets a receiver first
Min2(a, b) == IF a < b THEN a ELSE b
NBound(c, call) == Min2(call.npos + Receiver(c), Len(c.ps))
BindingFaults(c, call) ==
  LET eff == call.npos + Receiver(c)
      np == Len(c.ps)
      nb == NBound(c, call) IN
  IF c.kind = "value" THEN {"not-callable"} ELSE
  (IF eff > np /\ ~c.star THEN {"wrong-arg-count"} ELSE {})
  \cup (IF "first" \in call.kws /\ nb >= 1 THEN {"duplicate-keyword-argument"} ELSE {})
  \cup (IF ("zz" \in call.kws /\ ~c.kw) \/ ("k" \in call.kws /\ ~c.kwonly /\ ~c.kw)
          THEN {"wrong-keyword-args"} ELSE {})
  \cup (IF \/ \E j \in (nb + 1) .. np : ~(c.dflt /\ j = np) /\ ~(j = 1 /\ "first" \in call.kws)
           \/ c.kwonly /\ "k" \notin call.kws
          THEN {"missing-parameter"} ELSE {})
(* a well-bound call of an annotated callable whose int parameter receives 's' or None *)
TypeFault(c, call) ==
  /\ c.ann /\ BindingFaults(c, call) = {}
  /\ \/ \E j \in 1 .. NBound(c, call) : c.ps[j] \in Ordinary /\ (j - Receiver(c)) \in {2, 3}
     \/ "first" \in call.kws /\ c.ps[1] \in Ordinary
ExpectClasses(c, call) == IF TypeFault(c, call) THEN {"wrong-arg-types"} ELSE BindingFaults(c, call)
CallClasses == {"wrong-arg-count", "duplicate-keyword-argument", "wrong-keyword-args", "missing-parameter",
                "not-callable", "wrong-arg-types"}

(* (3) characters that str.splitlines() treats as a line break and CPython's tokenizer does not.     *)
(* Inside a string literal or a comment they are ordinary characters; between two tokens of one     *)
(* line only the form feed is white space, every other one is an invalid character.  None of them   *)
(* starts a new line: the number of lines, and - where the insertion is harmless - whether the text *)
(* compiles and which line is blamed, are those of the text without the character.                  *)
CharSeq == <<"ff", "vt", "fs", "gs", "rs", "nel", "ls", "ps">>     \* 0C 0B 1C 1D 1E 85 2028 2029
PlaceSeq == <<"token", "string", "comment">>
AllExoChars == {CharSeq[k] : k \in DOMAIN CharSeq}
Places == {PlaceSeq[k] : k \in DOMAIN PlaceSeq}
ExoKind(place) == "ws-" \o place
Harmless(place, ch) == place # "token" \/ ch = "ff"

(* composed texts: head ; precondition ; middle ; tail.  The precondition is a construct for which  *)
(* pytype rewrites or re-reads the source text (bare annotations, type comments, directives); the   *)
(* tail puts an error on the LAST line: of a text that compiles, or of one that does not (rejected   *)
(* by the parser or only by the symbol-table pass); eol = the text ends with a newline.              *)
PrecondSeq == <<"none", "ann-func", "ann-async", "ann-module", "ann-class", "ann-method", "ann-semi",
                "type-comment", "func-type-comment", "directive", "type-ignore">>
TailSeq == <<"clean", "name-error", "return-outside", "nonlocal-unbound", "unclosed-paren", "fold-error">>
RegionSeq == <<"head", "pre", "mid", "tail">>
Preconds == {PrecondSeq[k] : k \in DOMAIN PrecondSeq}
Tails == {TailSeq[k] : k \in DOMAIN TailSeq}
Regions == {RegionSeq[k] : k \in DOMAIN RegionSeq}
Idx(seq, x) == CHOOSE k \in DOMAIN seq : seq[k] = x
BaseCompiles(tail) == tail \in {"clean", "name-error", "fold-error"}
ComposePlans == [pre : Preconds, tail : Tails, eol : BOOLEAN, region : Regions, place : Places, ch : AllExoChars]
ComposeCompiles(p) == BaseCompiles(p.tail) /\ Harmless(p.place, p.ch)
(* partition into n slices such that every (pre, tail, region) meets every slice with 48/n           *)
(* (place, ch, eol) combinations when n divides 48                                                   *)
SliceOf(p, n) == (16 * Idx(PlaceSeq, p.place) + 2 * Idx(CharSeq, p.ch) + B2N(p.eol)
                  + 5 * Idx(PrecondSeq, p.pre) + 7 * Idx(TailSeq, p.tail) + 11 * Idx(RegionSeq, p.region)) % n

(* attribution of a known defect (computed from the oracle side only: anntrail = the lines on which  *)
(* CPython's ast sees a bare annotation inside a function followed by more code on the same line):   *)
(* pytype appends ` = ...` to the END of such a line; the one compiler error is at that very line     *)
Attribution(fails, anntrail, errs) ==
  IF ("compiler-error-on-compilable" \in fails \/ "blamed-line" \in fails) /\ Len(errs) = 1
     /\ \E j \in DOMAIN anntrail : anntrail[j] = errs[1][2]
  THEN "bare-annotation-line-with-trailing-code" ELSE ""

(* ------------------------------------------------------------------------------------------ *)
(* The machine as a TLA+ behaviour spec: inputs (optionally mutated), all allowed runs, and the *)
(* reports the terminal outcomes admit.  TLC checks that the allowed behaviours satisfy C15 as   *)
(* stated, and exports the mutation plan (kind, slot) the driver applies to real token lists.    *)
(* ------------------------------------------------------------------------------------------ *)
CONSTANTS MaxLines, MutKinds, Slots, MaxMut, Export,
          MaxSub,        \* model bound: sub-run events per behaviour
          MaxSubDepth,   \* model bound: nesting of sub-runs
          Families,      \* planned families enumerated by this run: subset of {"call", "provoke", "compose"}
          ExoChars,      \* exotic characters inserted into pool texts by this run (subset of AllExoChars)
          CallFlagSlice, \* flag sets (FlagIndex values) of the call family enumerated by this run
          NSlices, Slice \* this run enumerates slice Slice of the NSlices slices of the composed texts

VARIABLES inp, st, errs, muts, hist,
          plan           \* the planned text: [fam |-> "none"] or a plan of one of the families

vars == <<inp, st, errs, muts, hist, plan>>

Inputs ==
  {i \in [compiles : BOOLEAN, cline : 0 .. MaxLines, nlines : 1 .. MaxLines, skip : BOOLEAN,
          mode : {"infer", "check"}] :
     /\ (i.compiles => i.cline = 0)
     /\ i.cline <= i.nlines}

Excs == {"SyntaxError", "IndentationError", "CompileError", "SkipFileError", "ConstantError"}
ErrNames == {"python-compiler-error", "attribute-error"}
NoPlan == [fam |-> "none"]

Init == inp \in Inputs /\ st = [k |-> -1, phase |-> "src", out |-> "none", sub |-> <<>>] /\ errs = <<>>
        /\ muts = <<>> /\ hist = <<>> /\ plan = NoPlan

(* Mutate(kind, slot): a token of the text is deleted / duplicated / swapped with its neighbour / *)
(* preceded by a stray token; the result is some text whose attributes are unconstrained.         *)
(* A mutation is <<kind, slot, character>>; the character is "" for these kinds.                   *)
Mutate(kind, slot) ==
  /\ st.phase = "src" /\ Len(muts) < MaxMut /\ plan.fam = "none"
  /\ \A j \in DOMAIN muts : muts[j][3] = ""
  /\ inp' \in {i \in Inputs : i.mode = inp.mode}
  /\ muts' = Append(muts, <<kind, slot, "">>)
  /\ UNCHANGED <<st, errs, hist, plan>>

(* Precondition: a bare annotation `v: int` is put at the start of every function body of a pool  *)
(* text, which makes pytype rewrite the source before compiling it; the text still compiles iff it *)
(* did (a fresh local name), its other attributes are unconstrained                                 *)
Precondition ==
  /\ st.phase = "src" /\ muts = <<>> /\ plan.fam = "none" /\ ExoChars # {}
  /\ inp.compiles /\ ~inp.skip /\ inp.nlines = MaxLines     \* (one representative input: the plans, not the
  /\ plan' = [fam |-> "pre", pre |-> "ann"]                  \*  abstract inputs, are what this part enumerates)
  /\ UNCHANGED <<inp, st, errs, muts, hist>>

(* MutateExo(place, slot, ch): one exotic character at a token boundary / inside a string literal *)
(* / inside a comment of a pool text (optionally after Precondition).  It never adds a line; where *)
(* it is harmless the oracle's view of the text is unchanged, otherwise the text does not compile.  *)
MutateExo(place, slot, ch) ==
  /\ st.phase = "src" /\ muts = <<>> /\ plan.fam \in {"none", "pre"}
  /\ inp.nlines = MaxLines /\ ~inp.skip /\ (inp.compiles \/ inp.cline = MaxLines)
  /\ inp' \in {i \in Inputs : /\ i.mode = inp.mode /\ i.nlines = inp.nlines /\ i.skip = inp.skip
                             /\ (Harmless(place, ch) => i.compiles = inp.compiles /\ i.cline = inp.cline)
                             /\ (~Harmless(place, ch) => ~i.compiles)}
  /\ muts' = << <<ExoKind(place), slot, ch>> >>
  /\ UNCHANGED <<st, errs, hist, plan>>

CanonInput(i) == i.compiles /\ ~i.skip /\ i.nlines = MaxLines
Planned(compiles) ==
  {i \in Inputs : i.mode = inp.mode /\ ~i.skip /\ i.nlines = MaxLines /\ i.compiles = compiles
                  /\ (~compiles => i.cline = MaxLines)}   \* blamed: the last line
Unplanned == st.phase = "src" /\ muts = <<>> /\ plan.fam = "none" /\ CanonInput(inp)

(* PlanCall(ps, fi): the text defines every callable with the parameter names ps and the flag set  *)
(* fi (one per kind; the non-callable values go with the empty list and no flag) and calls each    *)
(* with every call shape, one call per line; the plan carries the faults the language's binding     *)
(* rules give each call                                                                             *)
Group(ps, fi) == {c \in Callables : c.ps = ps /\ FlagIndex(c) = fi}
PlanCall(ps, fi) ==
  /\ Unplanned /\ "call" \in Families /\ fi \in CallFlagSlice /\ Group(ps, fi) # {}
  /\ plan' = [fam |-> "call", ps |-> ps, fi |-> fi,
              group |-> {[c |-> c,
                          calls |-> {[npos |-> call.npos, kws |-> call.kws, faults |-> BindingFaults(c, call),
                                      tfault |-> TypeFault(c, call)] : call \in CallsOf(c)}] : c \in Group(ps, fi)}]
  /\ inp' \in Planned(TRUE)
  /\ UNCHANGED <<st, errs, muts, hist>>

(* Provoke(k): the k-th text of the table, which provokes the error class ProvokeTable[k].want      *)
Provoke(k) ==
  /\ Unplanned /\ "provoke" \in Families
  /\ plan' = [fam |-> "provoke", k |-> k, id |-> ProvokeTable[k].id, want |-> ProvokeTable[k].want,
              src |-> ProvokeTable[k].src, deps |-> ProvokeTable[k].deps, opts |-> ProvokeTable[k].opts]
  /\ inp' \in Planned(ProvokeTable[k].want # "python-compiler-error")
  /\ UNCHANGED <<st, errs, muts, hist>>

(* Compose(p): head ; precondition ; middle ; tail with one exotic character in one region          *)
Compose(p) ==
  /\ Unplanned /\ "compose" \in Families /\ SliceOf(p, NSlices) = Slice
  /\ plan' = [fam |-> "compose", pre |-> p.pre, tail |-> p.tail, eol |-> p.eol, region |-> p.region,
              place |-> p.place, ch |-> p.ch, compiles |-> ComposeCompiles(p),
              basecompiles |-> BaseCompiles(p.tail), harmless |-> Harmless(p.place, p.ch)]
  /\ inp' \in Planned(ComposeCompiles(p))
  /\ UNCHANGED <<st, errs, muts, hist>>

Begin == st.phase = "src" /\ st' = Start /\ UNCHANGED <<inp, errs, muts, hist, plan>>

(* hist records <<stage, status, "main" | "sub">>; Verdict reads the first two components only *)
Stage ==
  /\ st.phase = "run"
  /\ st.k < Len(Stages)
  /\ \E ev \in ({Stages[st.k + 1]} \X ({"ok"} \cup Excs)) :
       /\ ~IsSub(st, ev)
       /\ Allowed(st, inp, ev)
       /\ st' = Advance(st, inp, ev)
       /\ hist' = Append(hist, <<ev[1], ev[2], "main">>)
  /\ UNCHANGED <<inp, errs, muts, plan>>

NSub == Cardinality({j \in DOMAIN hist : hist[j][3] = "sub"})

(* one step of a sub-run (annotation / type-comment evaluation) *)
SubStage ==
  /\ st.phase = "run"
  /\ NSub < MaxSub
  /\ \E ev \in (SubStages \X ({"ok"} \cup Excs)) :
       /\ IsSub(st, ev)
       /\ Allowed(st, inp, ev)
       /\ (ev = <<"Compile", "ok">> => Len(st.sub) < MaxSubDepth)
       /\ st' = Advance(st, inp, ev)
       /\ hist' = Append(hist, <<ev[1], ev[2], "sub">>)
  /\ UNCHANGED <<inp, errs, muts, plan>>

Ev2(h) == [j \in DOMAIN h |-> <<h[j][1], h[j][2]>>]
(* the report the code attaches to a terminal outcome (errorlog) *)
Report ==
  /\ st.phase = "end" /\ errs = <<>>
  /\ \/ /\ st.out = "CompileError"
        /\ \E l \in 0 .. inp.nlines :
             /\ (inp.cline > 0 => l = inp.cline)
             /\ errs' = << <<"python-compiler-error", l>> >>
     \/ /\ st.out = "FoldError"
        /\ \E l \in 1 .. inp.nlines : errs' = << <<"python-compiler-error", l>> >>
     \/ /\ st.out = "Result"
        /\ \E l \in 1 .. inp.nlines : errs' = << <<"attribute-error", l>> >>
     \/ /\ st.out = "Result" /\ NCaught(Ev2(hist)) > 0       \* the annotation text that did not compile
        /\ \E l \in 1 .. inp.nlines : errs' = << <<"python-compiler-error", l>> >>
  /\ st' = [st EXCEPT !.phase = "reported"]
  /\ UNCHANGED <<inp, muts, hist, plan>>

NoReport == st.phase = "end" /\ st.out \in {"Result", "Skipped"} /\ st' = [st EXCEPT !.phase = "reported"]
            /\ UNCHANGED <<inp, errs, muts, hist, plan>>

(* (the guards that do not depend on the bound variable stand outside the quantifiers: TLC then   *)
(* enumerates the plan sets only in the states in which a plan can be chosen)                      *)
Next == \/ \E k \in MutKinds, s \in Slots : Mutate(k, s)
        \/ Precondition
        \/ /\ st.phase = "src" /\ muts = <<>>
           /\ \E pl \in Places, s \in Slots, ch \in ExoChars : MutateExo(pl, s, ch)
        \/ /\ Unplanned /\ "call" \in Families
           /\ \E ps \in ParamLists, fi \in CallFlagSlice : PlanCall(ps, fi)
        \/ /\ Unplanned /\ "provoke" \in Families
           /\ \E k \in DOMAIN ProvokeTable : Provoke(k)
        \/ /\ Unplanned /\ "compose" \in Families
           /\ \E p \in ComposePlans : Compose(p)
        \/ Begin \/ Stage \/ SubStage \/ Report \/ NoReport
Spec == Init /\ [][Next]_vars

(* the catalogue and the table agree; every class has a provoking text *)
ASSUME ProvokeWants = ErrorClasses /\ CallClasses \subseteq ErrorClasses
ASSUME ExoChars \subseteq AllExoChars
(* the export run hands the pinned catalogue to the driver (vacuity guard on the names observed) *)
ASSUME Export => PrintT(<<"CASE", ToJson([catalogue |-> ErrorClasses, callclasses |-> CallClasses])>>)

(* C15 on the machine *)
Terminal == st.phase = "reported"
NeverEscapes == st.out # "Escaped"
Accepts == Terminal => Verdict(inp, Ev2(hist), FALSE, errs) = {}
NotCompilable == (Terminal /\ ~inp.compiles /\ st.out # "Skipped") =>
                   /\ st.out = "CompileError" /\ Len(errs) = 1 /\ errs[1][1] = "python-compiler-error"
                   /\ (inp.cline > 0 => errs[1][2] = inp.cline)
Compilable == (Terminal /\ inp.compiles) => st.out \in {"Result", "FoldError", "Skipped"}
LinesInFile == Terminal => \A j \in DOMAIN errs :
                 InFile(inp, errs[j][2]) \/ (st.out = "CompileError" /\ inp.cline = 0)
FailOnlyWhereAllowed ==
  \A j \in DOMAIN hist : hist[j][2] # "ok" =>
     \/ hist[j][3] = "main" /\ hist[j][1] \in {"Directors", "Compile", "Fold"}
     \/ hist[j][3] = "sub" /\ hist[j][1] = "Compile" /\ hist[j][2] = "CompileError"
(* the main stages occur in pipeline order, each at most once *)
MainHist == SelectSeq(hist, LAMBDA e : e[3] = "main")
StagesInOrder == \A j \in DOMAIN MainHist : MainHist[j][1] = Stages[j]
(* sub-run events occur only after Fold and before Analyze has returned, and are well nested:    *)
(* every main stage event is emitted with no sub-run open, and a result has none open             *)
MainBefore(j) == Cardinality({m \in 1 .. j - 1 : hist[m][3] = "main" /\ hist[m][2] = "ok"})
SubRunsInWindow == \A j \in DOMAIN hist : hist[j][3] = "sub" => MainBefore(j) \in SubWindow
SubRunsClosed == (st.phase \in {"end", "reported"} /\ st.out = "Result") => st.sub = <<>>
SubRunsNested ==
  /\ \A d \in DOMAIN st.sub : d < Len(st.sub) => st.sub[d] = "blocks"   \* only the innermost can be compiling
  /\ (st.sub # <<>> => st.k \in SubWindow)

ExportInv ==
  (Export /\ st.phase = "run" /\ st.k = 0) =>
     PrintT(<<"CASE", ToJson([muts |-> muts, mode |-> inp.mode, plan |-> plan])>>)
(* the plan families never leave the pinned catalogue: what a call plan expects is a class of it *)
PlansInCatalogue ==
  plan.fam = "call" => \A g \in plan.group : \A call \in g.calls : call.faults \subseteq CallClasses
=============================================================================

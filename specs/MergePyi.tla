------------------------------ MODULE MergePyi ------------------------------
(* C20 - merging a stub into source changes annotations only.                                  *)
(*                                                                                            *)
(* One behaviour = one program/stub pair:                                                      *)
(*   "build"   the slot table grows: at most one function (its parameters and return), then     *)
(*             module variables, then class variables (canonical order)                         *)
(*   "pass1"   RemoveAnyNeverTransformer rewrites the stub                                      *)
(*   "pass2"   RemoveTrivialTypesTransformer rewrites the stub                                  *)
(*   "apply"   ApplyTypeAnnotationsVisitor visits one slot per step                             *)
(*   "post"    only with FilterMerged: the Any / Never filter visits the merged source           *)
(*   "done"                                                                                     *)
(* Existing annotations (slot.ex) range over Exs: "T" and the annotations the author wrote as a  *)
(* bare Any / Never / typing.Any himself - on parameters, returns, `v: X = e`, the value-less     *)
(* declaration `v: X` (module and class level) and an annotated local.  They are kept whatever    *)
(* the stub says.  FilterMerged = TRUE is the design alternative "filter the result as well";    *)
(* it must violate KeptInv (design witness, like the AsCoded ones).                              *)
(* AsCoded = FALSE is the rule table the property asks for; AsCoded = TRUE models the code as   *)
(* written (the variable branch of pass 1 never fires; tuple / chained targets of a class body  *)
(* are declared at module level) and violates NoBareAnyNeverInv and NoStrayInv.                 *)
EXTENDS MergePyiOps, TLC, Json

CONSTANTS MaxSlots, MaxParams, MaxVars,
          PCtx,        \* parameter contexts to enumerate
          Fls,         \* function flavours to enumerate
          VCtx,        \* variable contexts to enumerate (besides "annotated")
          Rich2,       \* BOOLEAN: two-parameter functions also vary context/flavour
          AsCoded,
          Exs,         \* existing annotations to enumerate (subset of ExAnns)
          FilterMerged,\* BOOLEAN: design alternative, see PostFilter in MergePyiOps
          Mode         \* "check" | "tables" (export every table at the end of the build phase)
                       \* | "both" (check, and export every table on the way)

VARIABLES t, phase, fst, res, stray, k

vars == <<t, phase, fst, res, stray, k>>

Empty == [slots |-> <<>>, fl |-> "plain", am |-> TRUE]

Init == t = Empty /\ phase = "build" /\ fst = <<>> /\ res = <<>> /\ stray = {} /\ k = 0

HasKind(kd) == \E x \in DOMAIN t.slots : t.slots[x].kind = kd
NVars == Cardinality({x \in DOMAIN t.slots : t.slots[x].kind \in VarKinds})

ParamOpts(ctxs) ==
  {[kind |-> "param", ctx |-> c, ex |-> e, st |-> s] :
     c \in ctxs, e \in {"none"} \cup Exs, s \in {"none", "T", "U", "Any"}}
RetOpts ==
  {[kind |-> "ret", ctx |-> "plain", ex |-> e, st |-> s] :
     e \in {"none"} \cup Exs, s \in {"none", "T", "U", "Any", "Never"}}
(* contexts without an annotation of the author's / with one ("annotated" is always enumerated) *)
BareCtx == {"assign", "tuple", "multi", "reassign", "infunc"}
AnnCtx(kd) == {"annotated"} \cup (VCtx \cap (IF kd = "clsvar" THEN {"decl"} ELSE {"decl", "localann"}))
VarOpts(kd) ==
  {[kind |-> kd, ctx |-> c, ex |-> "none", st |-> s] :
     c \in (IF kd = "clsvar" THEN VCtx \cap {"assign", "tuple", "multi"} ELSE VCtx \cap BareCtx),
     s \in {"none", "T", "Any", "Never", "triv", "Lit"}}
  \cup {[kind |-> kd, ctx |-> c, ex |-> e, st |-> s] :
          c \in AnnCtx(kd), e \in Exs, s \in {"none", "T", "U", "Any", "Never"}}

(* star and keyword-only parameters come after the positional ones; at most one star *)
Rank(c) == CASE c = "plain" -> 1 [] c = "default" -> 2 [] c = "star" -> 3 [] OTHER -> 4
ParamOrderOK(ps) ==
  /\ \A x \in 1 .. Len(ps) - 1 : Rank(ps[x].ctx) <= Rank(ps[x + 1].ctx)
  /\ Cardinality({x \in DOMAIN ps : ps[x].ctx = "star"}) <= 1

AddFunc(fl, am, ps, r) ==
  /\ phase = "build" /\ t.slots = <<>>
  /\ Len(ps) + 1 <= MaxSlots
  /\ ParamOrderOK(ps)
  /\ am \/ fl = "plain"
  /\ (Len(ps) = 2 /\ ~Rich2) => (fl = "plain" /\ am /\ \A x \in DOMAIN ps : ps[x].ctx = "plain")
  /\ t' = [slots |-> ps \o <<r>>, fl |-> fl, am |-> am]
  /\ UNCHANGED <<phase, fst, res, stray, k>>

AddVar(s) ==
  /\ phase = "build"
  /\ Len(t.slots) < MaxSlots /\ NVars < MaxVars
  /\ s.kind = "modvar" => ~HasKind("clsvar")
  /\ t' = [t EXCEPT !.slots = Append(@, s)]
  /\ UNCHANGED <<phase, fst, res, stray, k>>

Freeze ==
  /\ phase = "build" /\ t.slots # <<>>
  /\ phase' = "pass1" /\ fst' = [x \in DOMAIN t.slots |-> t.slots[x].st]
  /\ UNCHANGED <<t, res, stray, k>>

Pass1 ==
  /\ phase = "pass1"
  /\ fst' = [x \in DOMAIN t.slots |-> AfterAnyNever(AsCoded, t.slots[x])]
  /\ phase' = "pass2" /\ UNCHANGED <<t, res, stray, k>>

Pass2 ==
  /\ phase = "pass2"
  /\ fst' = [x \in DOMAIN t.slots |-> AfterTrivial(t.slots[x], fst[x])]
  /\ phase' = "apply" /\ k' = 1 /\ UNCHANGED <<t, res, stray>>

Apply ==
  /\ phase = "apply"
  /\ IF k <= Len(t.slots)
       THEN /\ res' = Append(res, ApplySlot(AsCoded, t, fst, k))
            /\ stray' = IF StraySlot(AsCoded, t, fst, k) THEN stray \cup {k} ELSE stray
            /\ k' = k + 1 /\ UNCHANGED phase
       ELSE phase' = (IF FilterMerged THEN "post" ELSE "done") /\ UNCHANGED <<res, stray, k>>
  /\ UNCHANGED <<t, fst>>

Post ==
  /\ phase = "post"
  /\ res' = PostFilter(t, res)
  /\ phase' = "done" /\ UNCHANGED <<t, fst, stray, k>>

(* the guards are repeated in front of the quantifiers so that TLC does not enumerate the *)
(* function shapes in states where no function can be added                             *)
FuncShapes(n) ==
  {ps \in [1 .. n -> ParamOpts(IF n = 2 /\ ~Rich2 THEN PCtx \cap {"plain"} ELSE PCtx)] : ParamOrderOK(ps)}
Build ==
  \/ /\ phase = "build" /\ t.slots = <<>>
     /\ \E n \in 0 .. MaxParams : \E ps \in FuncShapes(n) :
          \E fl \in Fls, am \in BOOLEAN, r \in RetOpts : AddFunc(fl, am, ps, r)
  \/ /\ phase = "build" /\ Len(t.slots) < MaxSlots /\ NVars < MaxVars
     /\ \E kd \in VarKinds : \E s \in VarOpts(kd) : AddVar(s)

Next ==
  IF Mode = "tables" THEN Build \/ Freeze
  ELSE Build \/ Freeze \/ Pass1 \/ Pass2 \/ Apply \/ Post

Spec == Init /\ [][Next]_vars

-----------------------------------------------------------------------------
TypeOK ==
  /\ phase \in {"build", "pass1", "pass2", "apply", "post", "done"}
  /\ Exs \subseteq ExAnns
  /\ \A x \in DOMAIN t.slots : t.slots[x].ex \in {"none"} \cup Exs
  /\ \A x \in DOMAIN t.slots : t.slots[x].ctx \in {"annotated", "decl", "localann"} => t.slots[x].ex # "none"
  /\ Len(t.slots) <= MaxSlots
  /\ Len(res) <= Len(t.slots)
  /\ stray \subseteq DOMAIN t.slots

(* the passes over the stub only remove annotations *)
PassesOnlyRemove ==
  phase \in {"pass2", "apply", "done"} => \A x \in DOMAIN fst : fst[x] \in {"none", t.slots[x].st}

StepwiseEqualsRuleTable ==
  phase = "done" => res = Merge(AsCoded, t) /\ stray = Stray(AsCoded, t)
KeptInv == phase = "done" => Kept(t, res)
FromStubInv == phase = "done" => FromStub(t, res)
NoBareAnyNeverInv == phase = "done" => NoBareAnyNever(t, res)
(* what the author wrote as Any / Never is still there, on returns and variables too (this is    *)
(* Kept restricted to the slots where NoBareAnyNever would forbid an insertion)                  *)
AuthorAnyNeverStaysInv ==
  phase = "done" => \A x \in DOMAIN t.slots : t.slots[x].ex \in AnyNever => ResText(t, res, x) = t.slots[x].ex
NoStrayInv == phase = "done" => NoStray(stray)
AllOrNothingInv == phase = "done" => AllOrNothing(AsCoded, t, res)

ExportInv == (Mode \in {"tables", "both"} /\ phase = "pass1") => PrintT(<<"CASE", ToJson(t)>>)
=============================================================================

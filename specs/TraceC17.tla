------------------------------ MODULE TraceC17 ------------------------------
(* Code -> spec for C17.  The driver executed every constructor application exported by       *)
(* BoolEq.tla on the real pytype.pytd.booleq module and recorded the STRUCTURE of the real    *)
(* terms (arguments and results), plus term.simplify(table) for every restriction table.      *)
(*                                                                                            *)
(* Trace file (one JSON object):                                                              *)
(*   terms   the distinct real terms, hash-consed: terms[id] = [k, l, r, cs] with cs a        *)
(*           sequence of ids of earlier entries (k/l/r as in BoolEq.tla)                      *)
(*   tables  tables[j][n] = sequence of the values still possible for name n (<<>> for a      *)
(*           name that is a value)                                                            *)
(*   cases   [kind |-> "eq", l, r, res, exc]           res = id of booleq.Eq(l, r)            *)
(*           [kind |-> "and"|"or", args, res, exc]     res = id of booleq.And/Or(args)        *)
(*           [kind |-> "simp", t, s, exc]              s[j] = id of terms[t].simplify(tables[j])*)
(*           exc is the repr of an escaped exception ("" = none; then res / s[j] = 0)          *)
(*                                                                                            *)
(* TLC computes the truth table of every REAL term from its recorded structure with BoolEq's  *)
(* Eval and judges (BAD lines; verdicts are total):                                           *)
(*   exc      an exception escaped a constructor / simplify on valid input                    *)
(*   meaning  the constructed term is not equivalent to the connective over its arguments     *)
(*   nf       TRUE/FALSE or a same-kind term directly below the constructed and/or            *)
(*   simp     simplify changed the truth value under an assignment drawn from the table       *)
(* DIV lines (informational): the real structure differs from the model's MkEq/MkAnd/MkOr/    *)
(* Simplify applied to the real arguments.                                                    *)
EXTENDS BoolEq, IOUtils, TLCExt

TF == JsonDeserialize(IOEnv.TRACE_FILE)
Terms == TF.terms
Cases == TF.cases
NTab  == Len(TF.tables)
TabOf(j) == [v \in VarNames |-> ToSet(TF.tables[j][v])]

VARIABLE i

RECURSIVE ToTerm(_)
ToTerm(id) == LET n == Terms[id] IN
  [k |-> n.k, l |-> n.l, r |-> n.r, cs |-> {ToTerm(n.cs[j]) : j \in DOMAIN n.cs}]

TermTab  == TLCEval([id \in DOMAIN Terms |-> ToTerm(id)])
TruthTab == TLCEval([id \in DOMAIN Terms |-> Truth(TermTab[id])])
TabTab   == TLCEval([j \in 1 .. NTab |-> TabOf(j)])
SigTab   == TLCEval([j \in 1 .. NTab |-> SigmaOf(TabTab[j])])

WellFormed ==
  /\ \A id \in DOMAIN Terms : /\ Terms[id].k \in {"true", "false", "eq", "and", "or"}
                              /\ \A j \in DOMAIN Terms[id].cs : Terms[id].cs[j] < id
  /\ {TabTab[j] : j \in 1 .. NTab} = Tables          \* every restriction table was tried

Fails(c) ==
  CASE c.kind = "eq" ->
         IF c.exc # "" THEN {<<"exc", 0>>}
         ELSE (IF TruthTab[c.res] # {s \in Sigma : ValOf(c.l, s) = ValOf(c.r, s)}
                 THEN {<<"meaning", 0>>} ELSE {})
    [] c.kind \in {"and", "or"} ->
         IF c.exc # "" THEN {<<"exc", 0>>}
         ELSE LET want == IF c.kind = "and"
                            THEN {s \in Sigma : \A j \in DOMAIN c.args : s \in TruthTab[c.args[j]]}
                            ELSE {s \in Sigma : \E j \in DOMAIN c.args : s \in TruthTab[c.args[j]]} IN
              (IF TruthTab[c.res] # want THEN {<<"meaning", 0>>} ELSE {})
              \cup (IF ~NFTop(TermTab[c.res]) THEN {<<"nf", 0>>} ELSE {})
    [] c.kind = "simp" ->
         {<<"exc", j>> : j \in {x \in 1 .. NTab : c.exc[x] # ""}}
         \cup {<<"simp", j>> : j \in {x \in 1 .. NTab :
                 c.exc[x] = "" /\ (TruthTab[c.s[x]] \cap SigTab[x]) # (TruthTab[c.t] \cap SigTab[x])}}

Diverges(c) ==
  CASE c.kind = "eq" -> IF c.exc = "" /\ TermTab[c.res] # MkEq(c.l, c.r) THEN {0} ELSE {}
    [] c.kind \in {"and", "or"} ->
         IF c.exc = "" /\ TermTab[c.res] # Mk(c.kind, [j \in DOMAIN c.args |-> TermTab[c.args[j]]])
           THEN {0} ELSE {}
    [] c.kind = "simp" ->
         {j \in 1 .. NTab : c.exc[j] = "" /\ TermTab[c.s[j]] # Simplify(TermTab[c.t], TabTab[j])}

TInit == i = 1 /\ op = "true" /\ names = <<>> /\ args = <<>> /\ TLCSet(1, FALSE)
TNext == /\ i <= Len(Cases)
         /\ i' = i + 1
         /\ UNCHANGED vars
         /\ (i' > Len(Cases) => TLCSet(1, TRUE))

Ok == /\ (i = 1 => (WellFormed \/ PrintT(<<"MACH", ToJson([what |-> "trace file not well-formed"])>>)))
      /\ i <= Len(Cases) =>
           /\ LET f == Fails(Cases[i]) IN
                f = {} \/ PrintT(<<"BAD", ToJson([i |-> i, fails |-> f])>>)
           /\ LET d == Diverges(Cases[i]) IN
                d = {} \/ PrintT(<<"DIV", ToJson([i |-> i, at |-> d])>>)

Done == TLCGet(1)
=============================================================================

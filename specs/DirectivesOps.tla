--------------------------- MODULE DirectivesOps ---------------------------
(* Pure operators for property C03 (a disable comment on the reported line silences exactly  *)
(* that error): the data structures of pytype/directors/directors.py and the part of         *)
(* pytype/directors/parser.py that decides which line range a directive comment belongs to,   *)
(* as functions over a FILE record, together with the declarative meaning of directives.      *)
(*                                                                                            *)
(* A file F (what the parser hands to the Director, abstracted from the token level):         *)
(*   id     identifies a source skeleton (0: none)                                            *)
(*   n      number of lines, 1..n                                                             *)
(*   stmts  set of <<s, e>>: the base line ranges (parser.LineRange) -- one per logical       *)
(*          statement (for compound statements: the header); they partition 1..n (a line that *)
(*          belongs to no statement the parser registers is a range of its own)               *)
(*   calls  set of <<s, e>>: parser.Call ranges (calls, comparisons, subscripts), each inside *)
(*          one statement, possibly nested/overlapping                                        *)
(*   funcs  set of <<s, e>>: function ranges (first decorator line .. last line), starts are  *)
(*          unique                                                                            *)
(*   rets   lines that hold an explicit `return`                                              *)
(*   defs   line of the first class/function definition, 0 = none                             *)
(*   plain  lines that carry a comment which is not a directive (they still count as comment  *)
(*          lines for the parser's grouping)                                                  *)
(*   glob   error names disabled on the command line                                          *)
(*   cs     the directives in file order: [line, trail, cmd, names]; trail = TRUE: the        *)
(*          comment follows code on its line, FALSE: it stands alone ("open ended");          *)
(*          cmd in {"disable", "enable", "ignore"}; names = error names (or "*")              *)
(*   canT / canS  lines on which a trailing / stand-alone comment can be written (used by the *)
(*          generators only)                                                                  *)
EXTENDS Integers, Sequences, FiniteSets, TLC, SequencesExt

CONSTANTS Names,          \* the error names in play
          FuncCallErrs,   \* directors._FUNCTION_CALL_ERRORS (restricted to Names)
          AdjustErrs      \* directors._ALL_ADJUSTABLE_ERRORS (restricted to Names)

(* The two tables of directors.py AT THE PINNED COMMIT, written out.  The model constants are   *)
(* these tables restricted to the names in play (ASSUME below), so that every verdict and     *)
(* every known-finding attribution is computed from the pinned classification, never from a   *)
(* table imported from the code under test: a change of the tables in the code is a           *)
(* difference between code and specification (TraceC03: clause "tables", and the behavioural  *)
(* witnesses of ring 2 "alphabet" / ring 3).                                                  *)
PinnedFuncCallErrs ==
  {"attribute-error", "duplicate-keyword", "invalid-annotation", "missing-parameter",
   "not-instantiable", "wrong-arg-count", "wrong-arg-types", "wrong-keyword-args",
   "unsupported-operands"}
PinnedAdjustErrs ==
  PinnedFuncCallErrs \cup
  {"annotation-type-mismatch", "bad-return-type", "bad-yield-annotation",
   "container-type-mismatch", "not-supported-yet", "signature-mismatch"}

ASSUME PinnedTables ==
  /\ FuncCallErrs = PinnedFuncCallErrs \cap Names
  /\ AdjustErrs = PinnedAdjustErrs \cap Names

Star == "*"               \* directors._ALL_ERRORS
Ign == "ignore"           \* key of the `# type: ignore` line set (Director._ignore)
Keys == Names \cup {Star, Ign}
BRT == "bad-return-type"
BIG == 1000000            \* stands for sys.maxsize ("line 0 is below the file")

MaxS(S) == CHOOSE x \in S : \A y \in S : y <= x
MinS(S) == CHOOSE x \in S : \A y \in S : x <= y
InR(l, r) == r[1] <= l /\ l <= r[2]

-----------------------------------------------------------------------------
(* directors._LineSet: _lines (here: on = lines mapped to True, off = lines mapped to False)  *)
(* and _transitions.                                                                          *)

LsEmpty == [on |-> {}, off |-> {}, trans |-> <<>>]
LsLast(s) == IF s.trans = <<>> THEN -1 ELSE s.trans[Len(s.trans)]

(* set_line(line, membership) *)
LsSetLine(s, l, m) ==
  IF m THEN [s EXCEPT !.on = @ \cup {l}, !.off = @ \ {l}]
       ELSE [s EXCEPT !.off = @ \cup {l}, !.on = @ \ {l}]

(* start_range(line, membership): raises ValueError iff line < last transition *)
LsRaises(s, l) == l < LsLast(s)
LsStartRange(s, l, m) ==
  LET prev == (Len(s.trans) % 2) = 1 IN
  IF m = prev THEN s                                                  \* redundant
  ELSE IF l = LsLast(s) THEN [s EXCEPT !.trans = SubSeq(@, 1, Len(@) - 1)]   \* cancel: pop
  ELSE [s EXCEPT !.trans = Append(@, l)]

(* bisect.bisect (= bisect_right) on the sorted transition list *)
LsBisect(t, l) == Cardinality({j \in DOMAIN t : t[j] <= l})

(* __contains__ *)
LsContains(s, l) ==
  IF l \in s.on THEN TRUE
  ELSE IF l \in s.off THEN FALSE
  ELSE (LsBisect(s.trans, l) % 2) = 1

(* get_disable_after(line); -1 stands for None *)
LsDisableAfter(s, l) ==
  IF (Len(s.trans) % 2) = 1 /\ LsLast(s) >= l THEN LsLast(s) ELSE -1

LsSorted(s) == \A a, b \in DOMAIN s.trans : a < b => s.trans[a] < s.trans[b]

(* Declarative reading of a history h of operations [op, l, m] on one _LineSet: an entry for  *)
(* the very line wins; otherwise the most recent start_range at or before the line decides.   *)
HistMember(h, l) ==
  LET S == {j \in DOMAIN h : h[j].op = "set_line" /\ h[j].l = l}
      R == {j \in DOMAIN h : h[j].op = "start_range" /\ h[j].l <= l} IN
  IF S # {} THEN h[MaxS(S)].m
  ELSE IF R # {} THEN h[MaxS(R)].m
  ELSE FALSE

(* the documented precondition of start_range: lines never decrease *)
HistMonotone(h) ==
  \A a, b \in DOMAIN h :
     (a < b /\ h[a].op = "start_range" /\ h[b].op = "start_range") => h[a].l <= h[b].l

-----------------------------------------------------------------------------
(* directors._BlockRanges over the function ranges: f2e = start -> end, e2s = end -> start    *)
(* (one start per end: the dict comprehension keeps the range inserted last, which is the     *)
(* outermost of nested functions that end on the same line); _starts never changes.           *)

BrInit(funcs) ==
  [f2e |-> funcs,
   e2s |-> {<<e, MinS({f[1] : f \in {g \in funcs : g[2] = e}})>> : e \in {f[2] : f \in funcs}}]
BrStarts(br) == {f[1] : f \in br.f2e}
BrEnd(br, s) == (CHOOSE f \in br.f2e : f[1] = s)[2]
BrHasEnd(br, e) == \E p \in br.e2s : p[1] = e
BrAdjustEnd(br, old, new) ==
  LET s == (CHOOSE p \in br.e2s : p[1] = old)[2] IN
  [f2e |-> {f \in br.f2e : f[1] # s} \cup {<<s, new>>},
   e2s |-> {p \in br.e2s : p[1] # old /\ p[1] # new} \cup {<<new, s>>}]

(* find_outermost(line): <<start, end>>, <<0, 0>> for (None, None); the code raises IndexError *)
(* when there is no range at all (<<-1, -1>>).                                                *)
BrFind(br, line) ==
  LET S == SetToSortSeq(BrStarts(br), <)
      n == Len(S)
      i == Cardinality({s \in BrStarts(br) : s < line}) IN       \* bisect_left
  IF n = 0 THEN <<-1, -1>>
  ELSE IF i > 0 \/ line = S[1] THEN
    LET start == IF i < n /\ S[i + 1] = line THEN line
                 ELSE LET C == {x \in 2 .. i : BrEnd(br, S[x]) >= line} IN   \* "skip nested intervals"
                      IF C = {} THEN S[1] ELSE S[MaxS(C)]
        end == BrEnd(br, start) IN
    IF start <= line /\ line < end THEN <<start, end>> ELSE <<0, 0>>
  ELSE <<0, 0>>

-----------------------------------------------------------------------------
(* parser._ParseVisitor.structured_comment_groups: the work list of the Director.             *)
(* One item = (directive ci, range <<s, e>>, call?).  Groups are ordered by start line; the   *)
(* base group of a statement precedes the Call groups inside it; Call groups with the same    *)
(* start are visited inner first.  A base group holds every directive on its lines.  A Call   *)
(* group is re-created for each comment line inside the range (parser.py                      *)
(* _add_structured_comment_group overwrites the entry), so it keeps only the trailing         *)
(* directives of the LAST comment line inside the range.                                      *)

CmtLines(F) == {F.cs[j].line : j \in DOMAIN F.cs} \cup F.plain
StmtSeq(F) == SetToSortSeq(F.stmts, LAMBDA a, b : a[1] < b[1])
CallsIn(F, r) == {k \in F.calls : r[1] <= k[1] /\ k[2] <= r[2]}
CallSeq(F, r) ==
  SetToSortSeq(CallsIn(F, r), LAMBDA a, b : a[1] < b[1] \/ (a[1] = b[1] /\ a[2] < b[2]))
IdxSeq(S) == SetToSortSeq(S, <)
MkItems(idx, r, call) ==
  [x \in DOMAIN idx |-> [ci |-> idx[x], s |-> r[1], e |-> r[2], call |-> call]]
BaseItems(F, r) == MkItems(IdxSeq({j \in DOMAIN F.cs : InR(F.cs[j].line, r)}), r, FALSE)
CallKeeps(F, k) ==      \* the comment line whose directives Call range k keeps (0: none)
  LET L == {l \in CmtLines(F) : InR(l, k)} IN IF L = {} THEN 0 ELSE MaxS(L)
CallItems(F, k) ==
  MkItems(IdxSeq({j \in DOMAIN F.cs : F.cs[j].line = CallKeeps(F, k) /\ F.cs[j].trail}), k, TRUE)
StmtItems(F, r) ==
  LET cq == CallSeq(F, r) IN
  BaseItems(F, r) \o FlattenSeq([x \in DOMAIN cq |-> CallItems(F, cq[x])])
WorkItems(F) ==
  LET sq == StmtSeq(F) IN FlattenSeq([x \in DOMAIN sq |-> StmtItems(F, sq[x])])

-----------------------------------------------------------------------------
(* Director._parse_src_tree / _process_type / _process_pytype / _process_disable              *)
(* State: ls = one _LineSet per key, br = function ranges, raised = start_range raised.       *)

St0(F) ==
  [ls |-> [k \in Keys |-> IF k \in F.glob THEN LsStartRange(LsEmpty, 0, TRUE) ELSE LsEmpty],
   br |-> BrInit(F.funcs), raised |-> FALSE]

(* the line sets a directive is recorded in: `keep` drops all but function-call errors when   *)
(* the range is a Call (note: "*" is not a function-call error)                               *)
KeysOf(c, call) ==
  IF c.cmd = Ign THEN {Ign}
  ELSE IF call THEN c.names \cap FuncCallErrs
  ELSE c.names \cap (Names \cup {Star})
Pol(c) == c.cmd # "enable"
Adjusted(k) == k = Ign \/ k \in AdjustErrs     \* also recorded on the range's first line

ProcItem(st, F, it) ==
  LET c == F.cs[it.ci]
      m == Pol(c)
      K == KeysOf(c, it.call)
      upd(k) == IF ~c.trail THEN LsStartRange(st.ls[k], c.line, m)
                ELSE IF Adjusted(k) THEN LsSetLine(LsSetLine(st.ls[k], c.line, m), it.s, m)
                ELSE LsSetLine(st.ls[k], c.line, m)
      raises == ~c.trail /\ \E k \in K : LsRaises(st.ls[k], c.line)
      (* "make sure the function range ends at the last interesting line" *)
      br1 == IF ~it.call /\ BrHasEnd(st.br, it.e) THEN BrAdjustEnd(st.br, it.e, it.s) ELSE st.br IN
  [ls |-> [k \in Keys |-> IF k \in K THEN upd(k) ELSE st.ls[k]],
   br |-> br1, raised |-> st.raised \/ raises]

RECURSIVE RunFrom(_, _, _, _)
RunFrom(st, F, items, k) ==
  IF k > Len(items) THEN st ELSE RunFrom(ProcItem(st, F, items[k]), F, items, k + 1)

(* late-directive warnings: <<key, line>> *)
Late(F, st) ==
  IF F.defs = 0 THEN {}
  ELSE {<<k, LsDisableAfter(st.ls[k], F.defs)>> :
          k \in {x \in Keys : LsDisableAfter(st.ls[x], F.defs) # -1}}

RunDirector(F) ==
  LET st == RunFrom(St0(F), F, WorkItems(F), 1) IN
  [ls |-> st.ls, br |-> st.br, raised |-> st.raised, late |-> Late(F, st)]

(* Director.filter_error on an error q = [name, line, ret] (ret: raised by RETURN_VALUE /     *)
(* RETURN_CONST): the line the error is logged at, and whether it is logged.                  *)
QLine(l) == IF l = 0 THEN BIG ELSE l
EffLine(F, br, q) ==
  IF q.name = BRT /\ q.ret /\ q.line \notin F.rets /\ BrStarts(br) # {}
  THEN LET r == BrFind(br, q.line) IN IF r[2] > 0 THEN r[2] ELSE q.line
  ELSE q.line
SuppOp(ls, name, l) ==
  \/ LsContains(ls[Ign], l) \/ LsContains(ls[Star], l)
  \/ (name \in Keys /\ LsContains(ls[name], l))
FilterOp(F, r, q) ==
  LET e == EffLine(F, r.br, q) IN [line |-> e, rep |-> ~SuppOp(r.ls, q.name, QLine(e))]

-----------------------------------------------------------------------------
(* errors.ErrorLog.error(stack, message, ..., line=xl) as the VM calls it.  A raised error    *)
(* u = [name, op, xl, ret]: op = the line of the opcode that is executing when the error is   *)
(* detected (Error.with_stack), xl = the line the caller asks the error to be reported at     *)
(* (0: none, the error stays on the opcode's line), ret = raised by a RETURN opcode.          *)
(* Errors with xl # 0 and xl # op are RELOCATED: detected at one place, reported at another   *)
(* (incomplete-match: detected at the first opcode behind the match block, reported at the    *)
(* line of the `match` keyword).  The steps, in the order of the code:                        *)
(*   ErrNew     : the error object is created on the opcode's line                            *)
(*   ErrSetLine : `if line: err.set_line(line)`                                               *)
(*   ErrAdd     : _add -> the Director's filter_error decides on the error's CURRENT line     *)
(*                (and may move an implicit-return error); a kept error is appended           *)
(* The outcome [line, rep]: the line the error object ends up on, and whether it is logged.   *)
ErrNew(u) == [name |-> u.name, line |-> u.op, ret |-> u.ret]
ErrSetLine(e, xl) == IF xl # 0 THEN [e EXCEPT !.line = xl] ELSE e
ErrAdd(F, r, e) == FilterOp(F, r, e)
LogOp(F, r, u) == ErrAdd(F, r, ErrSetLine(ErrNew(u), u.xl))

-----------------------------------------------------------------------------
(* Declarative meaning.                                                                       *)
(* STRICT (the property as worded): a trailing directive counts on its own line only; a       *)
(* stand-alone one from its line to the next stand-alone one for the same key.                *)
(* DOC (what directors.py documents and its tests pin down): a trailing directive inside a    *)
(* multi-line statement ALSO counts on the first line of the statement (adjustable classes    *)
(* and `type: ignore`) and on the first line of every enclosing call range that keeps it      *)
(* (function-call classes and `type: ignore`).  Conflicts (only possible with a trailing      *)
(* `enable`): the directive the Director sees last wins.                                      *)

Mentions(c, k) == IF k = Ign THEN c.cmd = Ign ELSE c.cmd # Ign /\ k \in c.names /\ k \in Names \cup {Star}

RangeIdx(F, k, l) == {j \in DOMAIN F.cs : ~F.cs[j].trail /\ F.cs[j].line <= l /\ Mentions(F.cs[j], k)}
DeclRange(F, k, l) ==
  LET R == RangeIdx(F, k, l) IN IF R = {} THEN k \in F.glob ELSE Pol(F.cs[MaxS(R)])

InStrict(F, k, l) ==
  LET S == {j \in DOMAIN F.cs : F.cs[j].trail /\ F.cs[j].line = l /\ Mentions(F.cs[j], k)} IN
  IF S # {} THEN Pol(F.cs[MaxS(S)]) ELSE DeclRange(F, k, l)

Hits(F, it, k, l) ==
  LET c == F.cs[it.ci] IN
  /\ c.trail /\ k \in KeysOf(c, it.call)
  /\ (l = c.line \/ (Adjusted(k) /\ l = it.s))
InDocW(F, W, k, l) ==
  LET H == {x \in DOMAIN W : Hits(F, W[x], k, l)} IN
  IF H # {} THEN Pol(F.cs[W[MaxS(H)].ci]) ELSE DeclRange(F, k, l)
InDoc(F, k, l) == InDocW(F, WorkItems(F), k, l)

(* the end of a function range as the Director uses it for implicit returns: when the         *)
(* statement that ends the (outermost) function ending there carries a directive, the start   *)
(* of that statement                                                                          *)
AdjEnd(F, f) ==
  LET owner == MinS({g[1] : g \in {h \in F.funcs : h[2] = f[2]}})
      R == {r \in F.stmts : r[2] = f[2] /\ \E j \in DOMAIN F.cs : InR(F.cs[j].line, r)} IN
  IF f[1] = owner /\ R # {} THEN (CHOOSE r \in R : TRUE)[1] ELSE f[2]

(* an implicit `return None` is reported on the last line of the innermost function around it *)
DeclEff(F, q) ==
  IF q.name = BRT /\ q.ret /\ q.line \notin F.rets
  THEN LET enc == {f \in F.funcs : f[1] <= q.line /\ q.line <= AdjEnd(F, f)} IN
       IF enc = {} THEN q.line
       ELSE AdjEnd(F, CHOOSE f \in enc : \A g \in enc : g[1] <= f[1])
  ELSE q.line

(* W = WorkItems(F), passed in so that it is computed once *)
Supp(F, W, name, l, doc) ==
  LET In(k) == IF doc THEN InDocW(F, W, k, l) ELSE InStrict(F, k, l) IN
  In(Ign) \/ In(Star) \/ (name \in Keys /\ In(name))
DeclFilter(F, W, q, doc) ==
  LET e == DeclEff(F, q) IN [line |-> e, rep |-> ~Supp(F, W, q.name, QLine(e), doc)]

QueryLines(F) == (0 .. F.n + 1) \cup {BIG}

(* The property for raised errors: an error is reported at the line it was asked to be        *)
(* reported at (the opcode's line if none), and it is reported iff THAT line carries no       *)
(* directive for it -- wherever it was detected.                                              *)
AskedLine(u) == IF u.xl # 0 THEN u.xl ELSE u.op
DeclLog(F, W, u, doc) == DeclFilter(F, W, [name |-> u.name, line |-> AskedLine(u), ret |-> u.ret], doc)
Relocated(u) == u.xl # 0 /\ u.xl # u.op

-----------------------------------------------------------------------------
(* Editing a file: write one more directive on an existing line (as the last directive of     *)
(* that line).  "Changes nothing else", with the two exceptions spelled out:                  *)
(*   start : c is also recorded on the first line of its statement / enclosing call ranges    *)
(*   evict : c's line becomes the last comment line of a call range that kept the directives  *)
(*           of an earlier line; those lose their entry on the call's first line              *)

AddPos(F, c) == Cardinality({j \in DOMAIN F.cs : F.cs[j].line <= c.line}) + 1
AddDirective(F, c) ==
  LET p == AddPos(F, c) IN
  [F EXCEPT !.cs = SubSeq(@, 1, p - 1) \o <<c>> \o SubSeq(@, p, Len(@))]

ExcStart(F2, p, k) ==       \* F2 = file after the edit, p = position of the new directive
  LET W == WorkItems(F2) IN
  {W[x].s : x \in {y \in DOMAIN W : W[y].ci = p /\ k \in KeysOf(F2.cs[p], W[y].call) /\ Adjusted(k)}}
ExcEvict(F, c, k) ==
  {kr[1] : kr \in {x \in F.calls : InR(c.line, x) /\ CallKeeps(F, x) # 0 /\ CallKeeps(F, x) < c.line
                                  /\ \E j \in DOMAIN F.cs : /\ F.cs[j].line = CallKeeps(F, x)
                                                            /\ F.cs[j].trail
                                                            /\ k \in KeysOf(F.cs[j], TRUE)}}

(* the set of <<key, line>> whose membership changes, split by cause *)
Changed(F, F2) ==
  LET W == WorkItems(F) W2 == WorkItems(F2) IN
  {x \in Keys \X QueryLines(F) : InDocW(F, W, x[1], x[2]) # InDocW(F2, W2, x[1], x[2])}

FrameWorks(F, c) ==          \* it always works on its own line
  LET F2 == AddDirective(F, c) IN \A k \in KeysOf(c, FALSE) : InDoc(F2, k, c.line) = Pol(c)

FrameChanges(F, c) ==
  LET F2 == AddDirective(F, c)
      p == AddPos(F, c)
      K == KeysOf(c, FALSE) IN
  \A x \in Changed(F, F2) :
     \/ x[1] \in K /\ (x[2] = c.line \/ x[2] \in ExcStart(F2, p, x[1]))
     \/ x[2] \in ExcEvict(F, c, x[1])

(* the strict frame: only the directive's own line changes *)
FrameTrailingStrict(F, c) ==
  \A x \in Changed(F, AddDirective(F, c)) : x[1] \in KeysOf(c, FALSE) /\ x[2] = c.line

(* a stand-alone disable for key k written on the free line a and the matching enable on the  *)
(* free line b > a (b = 0: none), where k is not range-disabled at a and no other stand-alone *)
(* directive for k lies between: k becomes suppressed on every line a <= l < b that has no    *)
(* entry of its own, and nothing else changes (except evictions as above).                    *)
FrameStandalone(F, k, a, b) ==
  LET d == [line |-> a, trail |-> FALSE, cmd |-> "disable", names |-> {k}]
      e == [line |-> b, trail |-> FALSE, cmd |-> "enable", names |-> {k}]
      F1 == AddDirective(F, d)
      F2 == IF b = 0 THEN F1 ELSE AddDirective(F1, e)
      W2 == WorkItems(F2)
      nxt == {F.cs[j].line : j \in {x \in DOMAIN F.cs : ~F.cs[x].trail /\ Mentions(F.cs[x], k) /\ F.cs[x].line > a}}
      lim == IF b # 0 THEN b ELSE IF nxt = {} THEN BIG + 1 ELSE MinS(nxt)
      own(l) == \E x \in DOMAIN W2 : Hits(F2, W2[x], k, l)
      ev(kk) == ExcEvict(F, d, kk) \cup (IF b = 0 THEN {} ELSE ExcEvict(F1, e, kk)) IN
  /\ \A l \in QueryLines(F) : (a <= l /\ l < lim /\ ~own(l)) => InDocW(F2, W2, k, l)
  /\ \A x \in Changed(F, F2) :
       \/ x[1] = k /\ a <= x[2] /\ x[2] < lim
       \/ x[2] \in ev(x[1])
=============================================================================

---------------------------- MODULE TraceErrorLog ----------------------------
(* Code -> spec for the error-log family of C04.  The driver (harness/c04_errorlog.py) replayed  *)
(* histories of ErrorLog.tla (every transition of the state graph of its families, and long      *)
(* simulated histories) on the REAL pytype.errors.errors.ErrorLog and recorded, after every     *)
(* operation, the projection of the real object.                                                *)
(*                                                                                              *)
(* Trace file (one JSON object):                                                                *)
(*   errs   errs[id] = abstract error [name, file, line, col, method, msg, det, tb, sev]        *)
(*   cmps   [l, r, res]: errors._compare_traceback_strings on two traceback strings (as frame   *)
(*          sequences); res = "eq" | "gt" | "lt" | "none"                                       *)
(*   cases  [f, from, steps |-> << [o, b] >>, alts |-> << [o, b] >>]                              *)
(*          steps = a history; alts = alternative LAST steps after it (the transitions that     *)
(*          leave the model state reached by the history: the prefix is walked once)            *)
(*          o = the operation (the record of ErrorLog.tla's hist)                               *)
(*          b = the real state after it:                                                        *)
(*              log   ids of list(log)            caps  ids of cp.errors per closed checkpoint  *)
(*              len   len(log)                    has   log.has_error()                         *)
(*              rep   ids of unique_sorted_errors()     rep2  asked again                       *)
(*              log2  ids of list(log) after the two reports                                    *)
(*              rr    unique_sorted_errors() of a fresh log that holds exactly rep              *)
(*              ix    per entry of rep its index in the log BY IDENTITY (0 = not in the log)    *)
(*              ur    per entry of the log the class of the real get_unique_representation()    *)
(*              exc   "" or the exception that escaped the operation (the history ends there)   *)
(*          from: verdicts are computed for the steps from .. Len(steps) and for every alt (the  *)
(*          steps of a prefix are alts of other cases: every transition of the model is an alt)  *)
(*          BAD/DIV/COV lines carry k: k <= Len(steps) = that step, otherwise alt k - Len(steps) *)
(*                                                                                              *)
(* The spec state is advanced by ErrorLog's own actions (a history that is not a behaviour of   *)
(* the spec blocks the walk: Done fails).  Next to it the trace keeps, per open checkpoint, the  *)
(* REAL log at Enter and the errors that were added at that nesting level and passed the filter *)
(* (rcps).  Verdicts are total; a BAD line names every failing clause:                           *)
(*   exc               an exception escaped                                                     *)
(*   P0-log            add / enter / setfilter: the real log is not the real log before plus    *)
(*                     the error iff it passes the filter                                       *)
(*   P0-copy           copy_from did not append exactly the captured errors that pass the       *)
(*                     filter, with their name/message/details at the position of the stack     *)
(*   P0-caps-frame     the captures of closed checkpoints changed                               *)
(*   P1-restore        after Exit the real log differs from the real log at the matching Enter  *)
(*   P1-captured       cp.errors differs from the errors added inside that passed the filter    *)
(*   P1-closed-frame   Exit changed the captures of earlier checkpoints                         *)
(*   P2-sorted P2-unique P2-max P2-inlog P2-covered     ErrorLog!P2Fails(real log, real report)  *)
(*   P3-idempotent     the second answer, or the report of the report, differs                  *)
(*   P3-log-modified   asking for the report changed the log                                    *)
(*   P4-has-error P4-len                                                                        *)
(* DIV lines (informational, never an alarm): the model's log / captures / operational report   *)
(* differ structurally from the real ones; real get_unique_representation() partitions the log  *)
(* differently from URep; reported objects are not the logged objects; copy_from's severity.    *)
(* CMP lines: Cmp disagrees with the real _compare_traceback_strings.                            *)
(* COV lines: what the judged step exercised (for the vacuity guards).                          *)
EXTENDS ErrorLog, IOUtils, TLCExt

TF == JsonDeserialize(IOEnv.TRACE_FILE)
Errs == TF.errs
Cmps == TF.cmps
Cases == TF.cases

VARIABLES i, k,
          rcps,     \* open checkpoints: [snap |-> REAL log at Enter, added |-> errors added inside]
          verd      \* verdict on the step just taken: [f |-> clauses, d |-> notes, v |-> coverage]

ErrSeq(ids) == [x \in 1 .. Len(ids) |-> Errs[ids[x]]]
CapsOf(cs) == [x \in 1 .. Len(cs) |-> ErrSeq(cs[x])]
Obs0 == [log |-> <<>>, caps |-> <<>>]
NoSev(s) == [x \in 1 .. Len(s) |-> [s[x] EXCEPT !.sev = 0]]
NoVerd == [f |-> {}, d |-> {}, v |-> {}]
If(c, x) == IF c THEN {x} ELSE {}

Apply(o) ==
  CASE o.op = "add" -> Add(o.e)
    [] o.op = "enter" -> Enter
    [] o.op = "exit" -> Exit
    [] o.op = "setfilter" -> SetFilter(ToSet(o.f))
    [] o.op = "copy" -> CopyFrom(o.c, o.s)
    [] o.op = "report" -> Report

(* one step st = [o, b] judged on the real states before (pre) and after (st.b) it *)
Judge(pre, st) ==
  LET o == st.o
      post == st.b
      preL == ErrSeq(pre.log)
      postL == ErrSeq(post.log)
      preC == CapsOf(pre.caps)
      postC == CapsOf(post.caps)
      R == ErrSeq(post.rep)
      new == IF o.op = "add" THEN (IF Passes(o.e, filter) THEN <<o.e>> ELSE <<>>)
             ELSE IF o.op = "copy" THEN Keep(MappedSeq(preC[o.c], o.s), filter)
             ELSE <<>>
      grown == Len(postL) >= Len(preL) /\ SubSeq(postL, 1, Len(preL)) = preL
      suffix == SubSeq(postL, Len(preL) + 1, Len(postL))
      copyOk == grown /\ NoSev(suffix) = NoSev(new)
      top == rcps[Len(rcps)]
      fails ==
        IF post.exc # "" THEN {"exc"}
        ELSE (CASE o.op \in {"add", "enter", "setfilter"} -> If(postL # preL \o new, "P0-log")
                [] o.op = "report" -> If(postL # preL, "P3-log-modified")
                [] o.op = "copy" -> If(~copyOk, "P0-copy")
                [] o.op = "exit" ->
                     If(postL # top.snap, "P1-restore")
                     \cup If(~(Len(postC) = Len(preC) + 1 /\ postC[Len(postC)] = top.added), "P1-captured")
                     \cup If(~(Len(postC) >= Len(preC) /\ SubSeq(postC, 1, Len(preC)) = preC),
                             "P1-closed-frame"))
             \cup If(o.op # "exit" /\ postC # preC, "P0-caps-frame")
             \cup P2Fails(postL, R)
             \cup If(post.rep2 # post.rep \/ post.rr # post.rep, "P3-idempotent")
             \cup If(post.log2 # post.log, "P3-log-modified")
             \cup If(post.has # HasError(postL), "P4-has-error")
             \cup If(post.len # Len(postL), "P4-len")
      notes ==
        IF post.exc # "" THEN {}
        ELSE If(log' # postL, "log")
             \cup If([x \in 1 .. Len(closed') |-> closed'[x].cap] # postC, "caps")
             \cup If(ReportOf(postL) # R, "report")
             \cup If(~(Len(post.ur) = Len(postL) /\
                       \A a, b \in 1 .. Len(postL) :
                          (post.ur[a] = post.ur[b]) <=> SameGroup(postL[a], postL[b])), "urep")
             \cup If(~(Len(post.ix) = Len(R) /\
                       \A x \in 1 .. Len(R) : post.ix[x] \in 1 .. Len(postL) /\ postL[post.ix[x]] = R[x]),
                     "identity")
             \cup If(o.op = "copy" /\ copyOk /\ suffix # new, "copy-severity")
      cov ==
        IF post.exc # "" THEN {}
        ELSE If(Len(rcps') >= 2, "nested")
             \cup If(o.op = "exit" /\ Len(rcps) >= 2, "exit-inner")
             \cup If(o.op = "exit" /\ Len(postC) > 0 /\ postC[Len(postC)] # <<>>, "exit-nonempty")
             \cup If(o.op = "add" /\ new = <<>>, "filter-hit")
             \cup If(o.op = "add" /\ new = <<>> /\ rcps # <<>>, "filter-hit-inside")
             \cup If(o.op = "copy" /\ new # <<>>, "copy")
             \cup If(o.op = "copy" /\ new # <<>> /\ rcps # <<>>, "copy-inside")
             \cup If(o.op = "copy" /\ Len(new) < Len(preC[o.c]), "copy-filtered")
             \cup If(~Sorted(postL), "unsorted-log")
             \cup If(Replaced(postL, R), "replaced")
             \cup If(IncomparableKept(R), "incomparable")
             \cup If(Dropped(postL, R), "overflow")
             \cup If(RoomLeft(postL, R), "room-left")
             \cup If(SevShadow(postL, R), "sev-shadow")
             \cup If(Len(R) < Len(postL), "deduplicated")
  IN [f |-> fails, d |-> notes, v |-> cov]

RcpsAfter(pre, st) ==
  LET o == st.o
      preL == ErrSeq(pre.log)
      postL == ErrSeq(st.b.log)
      expected == IF o.op = "add" THEN (IF Passes(o.e, filter) THEN <<o.e>> ELSE <<>>)
                  ELSE Keep(MappedSeq(CapsOf(pre.caps)[o.c], o.s), filter)
      suffix == SubSeq(postL, Len(preL) + 1, Len(postL))
      (* copy: what really was appended if it is right up to the severity (P0-copy judges that) *)
      new == IF o.op = "copy" /\ Len(postL) >= Len(preL) /\ NoSev(suffix) = NoSev(expected)
               THEN suffix ELSE expected IN
  CASE o.op = "enter" -> Append(rcps, [snap |-> preL, added |-> <<>>])
    [] o.op = "exit" -> SubSeq(rcps, 1, Len(rcps) - 1)
    [] o.op \in {"add", "copy"} ->
         IF rcps = <<>> THEN rcps ELSE [rcps EXCEPT ![Len(rcps)].added = @ \o new]
    [] OTHER -> rcps

TInit == /\ fam = [Base EXCEPT !.name = "trace"]
         /\ log = <<>> /\ cps = <<>> /\ closed = <<>> /\ filter = {} /\ rep = NoRep
         /\ pend = "" /\ hist = <<>>
         /\ i = 1 /\ k = 0 /\ rcps = <<>> /\ verd = NoVerd
         /\ TLCSet(1, FALSE)

PreOf(c, n) == IF n = 0 THEN Obs0 ELSE c.steps[n].b       \* the real state after n steps

(* the common prefix of the case, one step at a time *)
Step ==
  /\ i <= Len(Cases) /\ k < Len(Cases[i].steps)
  /\ LET c == Cases[i]
         st == c.steps[k + 1] IN
       /\ Apply(st.o)
       /\ rcps' = RcpsAfter(PreOf(c, k), st)
       /\ verd' = IF k + 1 >= c.from THEN Judge(PreOf(c, k), st) ELSE NoVerd
  /\ pend' = pend
  /\ k' = k + 1 /\ i' = i

(* the alternative last steps of the case: every one is judged from the state after the prefix *)
Alt ==
  /\ i <= Len(Cases) /\ k = Len(Cases[i].steps)
  /\ \E a \in 1 .. Len(Cases[i].alts) :
       LET c == Cases[i]
           st == c.alts[a] IN
       /\ Apply(st.o)
       /\ rcps' = RcpsAfter(PreOf(c, k), st)
       /\ verd' = Judge(PreOf(c, k), st)
       /\ k' = k + a
  /\ pend' = pend
  /\ i' = i

NextCase ==
  /\ i <= Len(Cases)
  /\ \/ k > Len(Cases[i].steps)
     \/ k = Len(Cases[i].steps) /\ Len(Cases[i].alts) = 0
  /\ i' = i + 1 /\ k' = 0 /\ rcps' = <<>> /\ verd' = NoVerd
  /\ log' = <<>> /\ cps' = <<>> /\ closed' = <<>> /\ filter' = {} /\ rep' = NoRep /\ hist' = <<>>
  /\ UNCHANGED <<fam, pend>>
  /\ (i' > Len(Cases) => TLCSet(1, TRUE))

TNext == Step \/ Alt \/ NextCase

CmpOk ==
  \A x \in DOMAIN Cmps :
     LET m == Cmp(Cmps[x].l, Cmps[x].r) IN
     m = Cmps[x].res \/ PrintT(<<"CMP", ToJson([l |-> Cmps[x].l, r |-> Cmps[x].r,
                                                real |-> Cmps[x].res, spec |-> m])>>)

Ok == /\ ((i = 1 /\ k = 0) => CmpOk)
      /\ verd.f = {} \/ PrintT(<<"BAD", ToJson([i |-> i, k |-> k, fails |-> verd.f])>>)
      /\ verd.d = {} \/ PrintT(<<"DIV", ToJson([i |-> i, k |-> k, notes |-> verd.d])>>)
      /\ verd.v = {} \/ PrintT(<<"COV", ToJson([i |-> i, k |-> k, v |-> verd.v])>>)

Done == TLCGet(1)
=============================================================================

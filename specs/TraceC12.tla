------------------------------ MODULE TraceC12 ------------------------------
(* Code -> spec for C12.  The trace file holds                                                   *)
(*   runs   recorded runs of the bytes line of StubRoundTrip (Canonical, Encode, Decode,          *)
(*          Reencode, Reserialize) on real ASTs: emitted, exported (io.write_pickle's             *)
(*          PrepareForExport), StubGen in both dialects, every bundled stub, the module bundle;   *)
(*   terms  the term list exported by PytdEq.tla (checked here to be exactly AllTerms);           *)
(*   rows   for term number a and every term number j: eq[j] = (node_a == node_j),                *)
(*          hq[j] = (hash(node_a) == hash(node_j)), sc[j] = (len({node_a, node_j}) == 1), all       *)
(*          observed on the real pytd nodes built from the terms.                                  *)
(* Verdicts (BAD lines):  runs: C12Fails(art).  rows, for every j:                                 *)
(*   eqm   (a == b) # SpecEq(a, b)              equality is not the specified one                  *)
(*   hash  a == b but hash(a) # hash(b)         equal nodes must hash equally                      *)
(*   set   a == b but {a, b} keeps both          de-duplication keeps two equal types               *)
(* together with `variant`: the j among the failing ones where the two terms differ only by        *)
(* order / repetition / nesting of union members (the discriminator of the known finding).         *)
EXTENDS StubRoundTrip, PytdEq, IOUtils, TLCExt

Trace == JsonDeserialize(IOEnv.TRACE_FILE)
Runs == Trace.runs
Terms == Trace.terms
Rows == Trace.rows

VARIABLES i, k, j

Apply(e) ==
  CASE e.op = "Canonical"   -> Canonicalize(e.ok, e.d)
    [] e.op = "Encode"      -> EncodeAst(e.ok, e.d)
    [] e.op = "Decode"      -> DecodeBytes(e.ok, e.d, e.e)
    [] e.op = "Reencode"    -> ReencodeObj(e.ok, e.d)
    [] e.op = "Reserialize" -> ReserializeAst(e.ok, e.d)

TInit == /\ i = 1 /\ k = 0 /\ j = 0 /\ line = "bytes" /\ phase = "start" /\ art = Art0
         /\ pair = <<AnyT, AnyT>> /\ TLCSet(1, FALSE)

StepEvent ==
  /\ i <= Len(Runs) /\ k < Len(Runs[i].events)
  /\ Apply(Runs[i].events[k + 1])
  /\ k' = k + 1 /\ UNCHANGED <<i, j, pair>>

NextRun ==
  /\ i <= Len(Runs) /\ k = Len(Runs[i].events)
  /\ i' = i + 1 /\ k' = 0 /\ Start("bytes") /\ UNCHANGED <<j, pair>>

NextRow ==
  /\ i > Len(Runs) /\ j <= Len(Rows)
  /\ j' = j + 1 /\ UNCHANGED <<i, k, pair, rvars>>
  /\ (j' > Len(Rows) => TLCSet(1, TRUE))

TNext == StepEvent \/ NextRun \/ NextRow

RunFails == C12Fails(art) \cup (IF Ended THEN {} ELSE {"incomplete"})

(* the rows were computed for exactly the terms the specification enumerates *)
TermsBound == Rows = <<>> \/ SeqToSet(Terms) = AllTerms

RowVerdict(r) ==
  LET a == Terms[r.a]
      N == DOMAIN Terms
      eqm  == {x \in N : (r.eq[x] = 1) # SpecEq(a, Terms[x])}
      hash == {x \in N : r.eq[x] = 1 /\ r.hq[x] = 0}
      set  == {x \in N : r.eq[x] = 1 /\ r.sc[x] = 0}
      bad  == eqm \cup hash \cup set IN
    [a |-> r.a, eqm |-> eqm, hash |-> hash, set |-> set,
     variant |-> {x \in bad : OrderVariant(a, Terms[x])}]

Ok ==
  /\ (i <= Len(Runs) /\ k = Len(Runs[i].events)) =>
       /\ LET f == RunFails IN
            f = {} \/ PrintT(<<"BAD", ToJson([run |-> i, id |-> Runs[i].id, fails |-> f])>>)
       /\ LET n == C12Notes(art) IN
            n = {} \/ PrintT(<<"NOTE", ToJson([run |-> i, id |-> Runs[i].id, notes |-> n])>>)
  /\ (i > Len(Runs) /\ j = 0) => (TermsBound \/ PrintT(<<"BAD", ToJson([terms |-> "mismatch"])>>))
  /\ (i > Len(Runs) /\ j >= 1 /\ j <= Len(Rows)) =>
       LET v == RowVerdict(Rows[j]) IN
         (v.eqm = {} /\ v.hash = {} /\ v.set = {}) \/ PrintT(<<"BAD", ToJson(v)>>)

Done == TLCGet(1)
=============================================================================

------------------------------ MODULE TraceC12 ------------------------------
(* Code -> spec for C12.  The trace file holds                                                   *)
(*   runs   recorded runs of the bytes line of StubRoundTrip (Canonical, Encode, Decode,          *)
(*          Reencode, Reserialize) on real ASTs: inferred, exported (io.write_pickle's            *)
(*          PrepareForExport), StubGen in both dialects, every bundled / loaded stub, the module   *)
(*          bundle;                                                                                *)
(*   terms  the term list exported by PytdEq.tla (checked here to be exactly AllTerms);           *)
(*   rows   for term number a: eq = the numbers j with node_a == node_j; among those,              *)
(*          hne = the j with hash(node_a) # hash(node_j), keep = the j where {node_a, node_j}       *)
(*          (and a dict keyed by both) keeps two entries; all observed on the real pytd nodes       *)
(*          built from the terms.                                                                  *)
(*          each record: events (the main run), devs (documented deviations whose trigger occurs  *)
(*          in the AST), variants (counterfactual runs <<without, events>> with the triggers       *)
(*          removed; used for attribution only, as in TraceC05);                                   *)
(*   runs   also: the same for ASTs read from stub TEXT through SourceToExportableAst under the    *)
(*          module names ExportStubs.tla enumerates (mixed class-pointer state), with the steps      *)
(*          Again / Reorder; and, as separate records with line = "nodes", the node line Hash ->     *)
(*          Clear -> Found of the same execution;                                                    *)
(*   ct     the term list in the ClassType dialect (checked here to be CtDialect of terms);         *)
(*   xrows  like rows, but node_a is built from ct[a] with its class pointers FILLED IN by the real  *)
(*          visitors and node_j from ct[j] WITHOUT pointers: the law across pointer states;          *)
(*   life   for term number a: the life of ONE node object built from ct[a]: steps                   *)
(*          <<[op, ptr, h, inset, eq]>> for op = Fill, Clear (Serialize of the holding AST),         *)
(*          Decode (the copy DecodeAst builds), Refill (pointers filled in on the copy); ptr = the    *)
(*          observed pointer state ("r" all filled, "u" none filled, "m" mixed, "-" no pointer), h =   *)
(*          hash, inset = found in a set built after Fill, eq = equal to the original object.         *)
(* Verdicts (BAD lines):  runs: C12Fails(art) of the main run + attr.  rows, for every j:          *)
(*   eqm   (a == b) # SpecEq(a, b)              equality is not the specified one                  *)
(*   hash  a == b but hash(a) # hash(b)         equal nodes must hash equally                      *)
(*   set   a == b but {a, b} keeps both          de-duplication keeps two equal types               *)
(* xrows: the same three clauses against SpecEq of the dialect forms.  life: moved (the hash     *)
(* differs from the hash after Fill), lost (not found in the set), uneq (not equal to the           *)
(* original), proto (the recorded steps are not LifeOps / the pointer state is not the one the       *)
(* spec's life prescribes: machinery).                                                              *)
(* together with the discriminators of the known findings, computed here:                          *)
(*   variant  the failing j where the two terms differ only by order / repetition / nesting of     *)
(*            union members (OrderVariant)                                                         *)
(*   litvar   the failing j where the two terms differ only by a raw-bool literal against the      *)
(*            equal int literal (LitVariant)                                                       *)
EXTENDS StubRoundTrip, PytdEq, IOUtils, TLCExt

TraceData == JsonDeserialize(IOEnv.TRACE_FILE)
Runs == TraceData.runs
Terms == TraceData.terms
Rows == TraceData.rows
CtTerms == TraceData.ct
XRows == TraceData.xrows
Life == TraceData.life
NRows == Len(Rows) + Len(XRows) + Len(Life)

VARIABLES i,      \* run record (one AST)
          v,      \* run of the record: 1 = main, 1 + x = counterfactual variant x
          k,      \* events of the run consumed so far
          acc,    \* fails of the finished runs of the record
          j       \* row

ToSetT(s) == {s[x] : x \in DOMAIN s}

Apply(e) ==
  CASE e.op = "Canonical"   -> Canonicalize(e.ok, e.d)
    [] e.op = "Encode"      -> EncodeAst(e.ok, e.d)
    [] e.op = "Decode"      -> DecodeBytes(e.ok, e.d, e.e)
    [] e.op = "Reencode"    -> ReencodeObj(e.ok, e.d)
    [] e.op = "Reserialize" -> ReserializeAst(e.ok, e.d)
    [] e.op = "Again"       -> SerializeAgain(e.ok, e.d)
    [] e.op = "Reorder"     -> ReorderDecoded(e.ok, e.d)
    [] e.op = "Hash"        -> HashNodes(e.ok, e.d)
    [] e.op = "Clear"       -> ClearNodes(e.ok, e.d, e.e)
    [] e.op = "Found"       -> FoundNodes(e.ok, e.d, e.e)

NRuns(c) == 1 + Len(c.variants)
LineOf(n) == IF n <= Len(Runs) THEN Runs[n].line ELSE "bytes"
Events(c, r) == IF r = 1 THEN c.events ELSE c.variants[r - 1].events

TInit == /\ i = 1 /\ v = 1 /\ k = 0 /\ acc = <<>> /\ j = 0
         /\ line = LineOf(1) /\ phase = "start" /\ art = Art0
         /\ pair = <<AnyT, AnyT>> /\ TLCSet(1, FALSE)

StepEvent ==
  /\ i <= Len(Runs) /\ k < Len(Events(Runs[i], v))
  /\ Apply(Events(Runs[i], v)[k + 1])
  /\ k' = k + 1 /\ UNCHANGED <<i, v, acc, j, pair>>

RunFails == C12Fails(art) \cup (IF Ended THEN {} ELSE {"incomplete"})

NextVariant ==
  /\ i <= Len(Runs) /\ k = Len(Events(Runs[i], v)) /\ v < NRuns(Runs[i])
  /\ acc' = Append(acc, RunFails)
  /\ v' = v + 1 /\ k' = 0 /\ Start(LineOf(i)) /\ UNCHANGED <<i, j, pair>>

NextRun ==
  /\ i <= Len(Runs) /\ k = Len(Events(Runs[i], v)) /\ v = NRuns(Runs[i])
  /\ i' = i + 1 /\ v' = 1 /\ k' = 0 /\ acc' = <<>> /\ Start(LineOf(i + 1)) /\ UNCHANGED <<j, pair>>

NextRow ==
  /\ i > Len(Runs) /\ j <= NRows
  /\ j' = j + 1 /\ UNCHANGED <<i, v, k, acc, pair, rvars>>
  /\ (j' > NRows => TLCSet(1, TRUE))

TNext == StepEvent \/ NextVariant \/ NextRun \/ NextRow

AtEnd == i <= Len(Runs) /\ k = Len(Events(Runs[i], v)) /\ v = NRuns(Runs[i])

(* verdict on one record: the fails of the main run and their attribution - the documented      *)
(* deviations present in the AST explain the failure iff the run with their triggers removed    *)
(* is clean; otherwise {"unexplained"}                                                          *)
(* the clauses a documented deviation can explain (alias-node-in-type-position: the typed decoder  *)
(* rejects the bytes, so Decode fails and the node line has no decoded nodes to find); a main run   *)
(* that violates anything else is never attributed to it                                           *)
DevClauses == {"decode", "found"}
RunVerdict ==
  LET c == Runs[i]
      all == Append(acc, RunFails)
      main == all[1]
      present == ToSetT(c.devs)
      residual == IF present = {} \/ Len(all) < 2 THEN main ELSE all[2]
      attr == IF main = {} THEN {}
              ELSE IF present = {} \/ residual # {} \/ ~(main \subseteq DevClauses) THEN {"unexplained"}
              ELSE present IN
    [run |-> i, id |-> c.id, fails |-> main, attr |-> attr]

(* the rows were computed for exactly the terms the specification enumerates *)
TermsBound ==
  /\ Rows = <<>> \/ ToSetT(Terms) = AllTerms
  /\ (XRows = <<>> /\ Life = <<>>) \/
       (Len(CtTerms) = Len(Terms) /\ \A x \in DOMAIN Terms : CtTerms[x] = CtDialect(Terms[x]))

RowVerdict(r) ==
  LET a == Terms[r.a]
      N == DOMAIN Terms
      EQ == ToSetT(r.eq)
      eqm  == {x \in N : (x \in EQ) # SpecEq(a, Terms[x])}
      hash == ToSetT(r.hne) \cap EQ
      set  == ToSetT(r.keep) \cap EQ
      bad  == eqm \cup hash \cup set IN
    [a |-> r.a, eqm |-> eqm, hash |-> hash, set |-> set,
     variant |-> {x \in bad : OrderVariant(a, Terms[x])},
     litvar |-> {x \in bad : LitVariant(a, Terms[x])},
     nvariants |-> Cardinality({x \in N : OrderVariant(a, Terms[x])})]

(* the law across pointer states: node_a with pointers against node_x without *)
XRowVerdict(r) ==
  LET a == CtTerms[r.a]
      N == DOMAIN CtTerms
      EQ == ToSetT(r.eq)
      eqm  == {x \in N : (x \in EQ) # SpecEq(a, CtTerms[x])}
      hash == ToSetT(r.hne) \cap EQ
      set  == ToSetT(r.keep) \cap EQ
      bad  == eqm \cup hash \cup set IN
    [xa |-> r.a, eqm |-> eqm, hash |-> hash, set |-> set,
     litvar |-> {x \in eqm : LitVariant(a, CtTerms[x])},
     \* equal pairs in which a pointer is really involved (vacuity measure)
     nptr |-> IF HasPtr(a) THEN Cardinality(EQ \ eqm) ELSE 0]

LifeVerdict(r) ==
  LET a == CtTerms[r.a]
      s == r.steps
      K == DOMAIN s
      want(op) == IF HasPtr(a) THEN PtrAfter(op) ELSE "-" IN
    [la |-> r.a,
     proto |-> {x \in K : x > Len(LifeOps) \/ s[x].op # LifeOps[x] \/ s[x].ptr # want(s[x].op)}
               \cup (IF Len(s) = Len(LifeOps) THEN {} ELSE {0}),
     moved |-> {x \in K : s[x].h # s[1].h},
     lost  |-> {x \in K : ~s[x].inset},
     uneq  |-> {x \in K : ~s[x].eq},
     ptr   |-> HasPtr(a)]

Ok ==
  /\ AtEnd => LET r == RunVerdict IN r.fails = {} \/ PrintT(<<"BAD", ToJson(r)>>)
  /\ (i <= Len(Runs) /\ v = 1 /\ k = Len(Runs[i].events)) =>
       LET n == C12Notes(art) IN
         n = {} \/ PrintT(<<"NOTE", ToJson([run |-> i, id |-> Runs[i].id, notes |-> n])>>)
  /\ (i > Len(Runs) /\ j = 0) => (TermsBound \/ PrintT(<<"BAD", ToJson([terms |-> "mismatch"])>>))
  /\ (i > Len(Runs) /\ j >= 1 /\ j <= Len(Rows)) =>
       LET rv == RowVerdict(Rows[j]) IN
         /\ PrintT(<<"ROW", ToJson([a |-> rv.a, nvariants |-> rv.nvariants])>>)
         /\ (rv.eqm = {} /\ rv.hash = {} /\ rv.set = {}) \/ PrintT(<<"BAD", ToJson(rv)>>)
  /\ (i > Len(Runs) /\ j > Len(Rows) /\ j <= Len(Rows) + Len(XRows)) =>
       LET rv == XRowVerdict(XRows[j - Len(Rows)]) IN
         /\ PrintT(<<"XROW", ToJson([a |-> rv.xa, nptr |-> rv.nptr])>>)
         /\ (rv.eqm = {} /\ rv.hash = {} /\ rv.set = {}) \/ PrintT(<<"BAD", ToJson(rv)>>)
  /\ (i > Len(Runs) /\ j > Len(Rows) + Len(XRows) /\ j <= NRows) =>
       LET rv == LifeVerdict(Life[j - Len(Rows) - Len(XRows)]) IN
         /\ PrintT(<<"LIFE", ToJson([a |-> rv.la, ptr |-> rv.ptr])>>)
         /\ (rv.proto = {} /\ rv.moved = {} /\ rv.lost = {} /\ rv.uneq = {}) \/ PrintT(<<"BAD", ToJson(rv)>>)

Done == TLCGet(1)
=============================================================================

------------------------------ MODULE TraceC12 ------------------------------
(* Code -> spec for C12.  The trace file holds                                                   *)
(*   runs   recorded runs of the bytes line of StubRoundTrip (Canonical, Encode, Decode,          *)
(*          Reencode, Reserialize) on real ASTs: inferred, exported (io.write_pickle's            *)
(*          PrepareForExport), StubGen in both dialects, every bundled / loaded stub, the module   *)
(*          bundle;                                                                                *)
(*   terms  the term list exported by PytdEq.tla (checked here to be exactly AllTerms);           *)
(*   rows   for term number a: eq = the numbers j with node_a == node_j; among those,              *)
(*          hne = the j with hash(node_a) # hash(node_j), keep = the j where {node_a, node_j}       *)
(*          (and a dict keyed by both) keeps two entries; all observed on the real pytd nodes       *)
(*          built from the terms.                                                                  *)
(*          each record: events (the main run), devs (documented deviations whose trigger occurs  *)
(*          in the AST), variants (counterfactual runs <<without, events>> with the triggers       *)
(*          removed; used for attribution only, as in TraceC05);                                   *)
(* Verdicts (BAD lines):  runs: C12Fails(art) of the main run + attr.  rows, for every j:          *)
(*   eqm   (a == b) # SpecEq(a, b)              equality is not the specified one                  *)
(*   hash  a == b but hash(a) # hash(b)         equal nodes must hash equally                      *)
(*   set   a == b but {a, b} keeps both          de-duplication keeps two equal types               *)
(* together with the discriminators of the known findings, computed here:                          *)
(*   variant  the failing j where the two terms differ only by order / repetition / nesting of     *)
(*            union members (OrderVariant)                                                         *)
(*   litvar   the failing j where the two terms differ only by a raw-bool literal against the      *)
(*            equal int literal (LitVariant)                                                       *)
EXTENDS StubRoundTrip, PytdEq, IOUtils, TLCExt

TraceData == JsonDeserialize(IOEnv.TRACE_FILE)
Runs == TraceData.runs
Terms == TraceData.terms
Rows == TraceData.rows

VARIABLES i,      \* run record (one AST)
          v,      \* run of the record: 1 = main, 1 + x = counterfactual variant x
          k,      \* events of the run consumed so far
          acc,    \* fails of the finished runs of the record
          j       \* row

ToSetT(s) == {s[x] : x \in DOMAIN s}

Apply(e) ==
  CASE e.op = "Canonical"   -> Canonicalize(e.ok, e.d)
    [] e.op = "Encode"      -> EncodeAst(e.ok, e.d)
    [] e.op = "Decode"      -> DecodeBytes(e.ok, e.d, e.e)
    [] e.op = "Reencode"    -> ReencodeObj(e.ok, e.d)
    [] e.op = "Reserialize" -> ReserializeAst(e.ok, e.d)

NRuns(c) == 1 + Len(c.variants)
Events(c, r) == IF r = 1 THEN c.events ELSE c.variants[r - 1].events

TInit == /\ i = 1 /\ v = 1 /\ k = 0 /\ acc = <<>> /\ j = 0
         /\ line = "bytes" /\ phase = "start" /\ art = Art0
         /\ pair = <<AnyT, AnyT>> /\ TLCSet(1, FALSE)

StepEvent ==
  /\ i <= Len(Runs) /\ k < Len(Events(Runs[i], v))
  /\ Apply(Events(Runs[i], v)[k + 1])
  /\ k' = k + 1 /\ UNCHANGED <<i, v, acc, j, pair>>

RunFails == C12Fails(art) \cup (IF Ended THEN {} ELSE {"incomplete"})

NextVariant ==
  /\ i <= Len(Runs) /\ k = Len(Events(Runs[i], v)) /\ v < NRuns(Runs[i])
  /\ acc' = Append(acc, RunFails)
  /\ v' = v + 1 /\ k' = 0 /\ Start("bytes") /\ UNCHANGED <<i, j, pair>>

NextRun ==
  /\ i <= Len(Runs) /\ k = Len(Events(Runs[i], v)) /\ v = NRuns(Runs[i])
  /\ i' = i + 1 /\ v' = 1 /\ k' = 0 /\ acc' = <<>> /\ Start("bytes") /\ UNCHANGED <<j, pair>>

NextRow ==
  /\ i > Len(Runs) /\ j <= Len(Rows)
  /\ j' = j + 1 /\ UNCHANGED <<i, v, k, acc, pair, rvars>>
  /\ (j' > Len(Rows) => TLCSet(1, TRUE))

TNext == StepEvent \/ NextVariant \/ NextRun \/ NextRow

AtEnd == i <= Len(Runs) /\ k = Len(Events(Runs[i], v)) /\ v = NRuns(Runs[i])

(* verdict on one record: the fails of the main run and their attribution - the documented      *)
(* deviations present in the AST explain the failure iff the run with their triggers removed    *)
(* is clean; otherwise {"unexplained"}                                                          *)
RunVerdict ==
  LET c == Runs[i]
      all == Append(acc, RunFails)
      main == all[1]
      present == ToSetT(c.devs)
      residual == IF present = {} \/ Len(all) < 2 THEN main ELSE all[2]
      attr == IF main = {} THEN {}
              ELSE IF present = {} \/ residual # {} THEN {"unexplained"} ELSE present IN
    [run |-> i, id |-> c.id, fails |-> main, attr |-> attr]

(* the rows were computed for exactly the terms the specification enumerates *)
TermsBound == Rows = <<>> \/ ToSetT(Terms) = AllTerms

RowVerdict(r) ==
  LET a == Terms[r.a]
      N == DOMAIN Terms
      EQ == ToSetT(r.eq)
      eqm  == {x \in N : (x \in EQ) # SpecEq(a, Terms[x])}
      hash == ToSetT(r.hne) \cap EQ
      set  == ToSetT(r.keep) \cap EQ
      bad  == eqm \cup hash \cup set IN
    [a |-> r.a, eqm |-> eqm, hash |-> hash, set |-> set,
     variant |-> {x \in bad : OrderVariant(a, Terms[x])},
     litvar |-> {x \in bad : LitVariant(a, Terms[x])},
     nvariants |-> Cardinality({x \in N : OrderVariant(a, Terms[x])})]

Ok ==
  /\ AtEnd => LET r == RunVerdict IN r.fails = {} \/ PrintT(<<"BAD", ToJson(r)>>)
  /\ (i <= Len(Runs) /\ v = 1 /\ k = Len(Runs[i].events)) =>
       LET n == C12Notes(art) IN
         n = {} \/ PrintT(<<"NOTE", ToJson([run |-> i, id |-> Runs[i].id, notes |-> n])>>)
  /\ (i > Len(Runs) /\ j = 0) => (TermsBound \/ PrintT(<<"BAD", ToJson([terms |-> "mismatch"])>>))
  /\ (i > Len(Runs) /\ j >= 1 /\ j <= Len(Rows)) =>
       LET rv == RowVerdict(Rows[j]) IN
         /\ PrintT(<<"ROW", ToJson([a |-> rv.a, nvariants |-> rv.nvariants])>>)
         /\ (rv.eqm = {} /\ rv.hash = {} /\ rv.set = {}) \/ PrintT(<<"BAD", ToJson(rv)>>)

Done == TLCGet(1)
=============================================================================

------------------------------ MODULE TraceC15 ------------------------------
(* Code -> spec for C15.  Each case is one run of pytype.io.check_or_generate_pyi on a virtual   *)
(* file: the oracle's view of the text (compile() accepts it? which line does it blame? number    *)
(* of lines, skip-file directive), the stage events <<stage, status, depth>> emitted by            *)
(* harness-side wrappers when a stage function returns or raises (sub-runs of Compile/Blocks/Run   *)
(* for annotation evaluation included; depth is informative, the sub-machine of Outcome decides    *)
(* what is a sub-run), whether an exception escaped, and the reported errors (name, line).         *)
(* The run is accepted iff it is a behaviour of the Outcome machine whose report satisfies C15     *)
(* (Outcome!Verdict).  Verdicts are total: failing clauses are printed as BAD lines.               *)
EXTENDS Outcome, IOUtils, TLCExt

Cases == JsonDeserialize(IOEnv.TRACE_FILE)

VARIABLE i

Pairs(s) == [x \in DOMAIN s |-> <<s[x][1], s[x][2]>>]

Fails(c) ==
  Verdict([compiles |-> c.compiles, cline |-> c.cline, nlines |-> c.nlines, skip |-> c.skip, mode |-> c.mode],
          Pairs(c.events), c.crashed, Pairs(c.errs))

TInit == i = 1 /\ TLCSet(1, FALSE) /\ inp = 0 /\ st = 0 /\ errs = 0 /\ muts = 0 /\ hist = 0
TNext == /\ i <= Len(Cases)
         /\ i' = i + 1
         /\ (i' > Len(Cases) => TLCSet(1, TRUE))
         /\ UNCHANGED vars

Ok == i <= Len(Cases) =>
        LET f == Fails(Cases[i]) IN
          f = {} \/ PrintT(<<"BAD", ToJson([i |-> i, fails |-> f])>>)

Done == TLCGet(1)
=============================================================================

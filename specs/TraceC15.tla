------------------------------ MODULE TraceC15 ------------------------------
(* Code -> spec for C15.  Each case is one run of pytype.io.check_or_generate_pyi on a virtual   *)
(* file: the oracle's view of the text (compile() accepts it? which line does it blame? number    *)
(* of lines, skip-file directive), the stage events <<stage, status, depth>> emitted by            *)
(* harness-side wrappers when a stage function returns or raises (sub-runs of Compile/Blocks/Run   *)
(* for annotation evaluation included; depth is informative, the sub-machine of Outcome decides    *)
(* what is a sub-run), whether an exception escaped, and the reported errors (name, line).         *)
(* The run is accepted iff it is a behaviour of the Outcome machine whose report satisfies C15     *)
(* (Outcome!Verdict).  Verdicts are total: failing clauses are printed as BAD lines, with the      *)
(* spec-computed attribution of a known defect (Outcome!Attribution).                              *)
(*                                                                                                 *)
(* Planned families.  A case of the family "call" carries its callables, each with its calls (shape  *)
(* and line); of the family "provoke" the class its text is to provoke.  The faults of every call are   *)
(* RE-COMPUTED here from the shapes (Outcome!ExpectClasses); COVER lines name the error classes     *)
(* that were reported where the spec expects them (the driver's vacuity guard: every class of the   *)
(* pinned catalogue, and every failed-call class by the call family alone), the reported names      *)
(* that are not in the pinned catalogue, the calls with no fault that got a binding error and the    *)
(* calls with a fault on whose line nothing was reported (both are C13's subject: logged only).       *)
EXTENDS Outcome, IOUtils, TLCExt

Cases == JsonDeserialize(IOEnv.TRACE_FILE)

VARIABLE i

Pairs(s) == [x \in DOMAIN s |-> <<s[x][1], s[x][2]>>]
ToSet(s) == {s[x] : x \in DOMAIN s}

Fails(c) ==
  Verdict([compiles |-> c.compiles, cline |-> c.cline, nlines |-> c.nlines, skip |-> c.skip, mode |-> c.mode],
          Pairs(c.events), c.crashed, Pairs(c.errs))

CallOf(x) == [npos |-> x.npos, kws |-> ToSet(x.kws)]
Reported(c, cl, line) == \E e \in DOMAIN c.errs : c.errs[e][1] = cl /\ c.errs[e][2] = line
Hit(c) ==
  CASE c.plan.fam = "call" ->
         {cl \in CallClasses : \E g \in DOMAIN c.plan.group : \E j \in DOMAIN c.plan.group[g].calls :
            /\ cl \in ExpectClasses(c.plan.group[g].c, CallOf(c.plan.group[g].calls[j]))
            /\ Reported(c, cl, c.plan.group[g].calls[j].line)}
    [] c.plan.fam = "provoke" ->
         {cl \in {c.plan.want} : \E e \in DOMAIN c.errs : c.errs[e][1] = cl}
    [] OTHER -> {}
(* calls the binding rules accept for which a binding error was reported (C13's subject; logged) *)
Spurious(c) ==
  IF c.plan.fam # "call" THEN {}
  ELSE {gj \in {x \in (DOMAIN c.plan.group) \X (1 .. 64) : x[2] \in DOMAIN c.plan.group[x[1]].calls} :
          /\ BindingFaults(c.plan.group[gj[1]].c, CallOf(c.plan.group[gj[1]].calls[gj[2]])) = {}
          /\ \E cl \in CallClasses \ {"wrong-arg-types"} : Reported(c, cl, c.plan.group[gj[1]].calls[gj[2]].line)}
(* calls with a binding fault on whose line nothing at all was reported (a missed error; logged) *)
Silent(c) ==
  IF c.plan.fam # "call" \/ c.crashed THEN {}
  ELSE {gj \in {x \in (DOMAIN c.plan.group) \X (1 .. 64) : x[2] \in DOMAIN c.plan.group[x[1]].calls} :
          /\ BindingFaults(c.plan.group[gj[1]].c, CallOf(c.plan.group[gj[1]].calls[gj[2]])) # {}
          /\ ~\E e \in DOMAIN c.errs : c.errs[e][2] = c.plan.group[gj[1]].calls[gj[2]].line}
Unknown(c) == {c.errs[e][1] : e \in DOMAIN c.errs} \ ErrorClasses

TInit == i = 1 /\ TLCSet(1, FALSE) /\ inp = 0 /\ st = 0 /\ errs = 0 /\ muts = 0 /\ hist = 0 /\ plan = 0
TNext == /\ i <= Len(Cases)
         /\ i' = i + 1
         /\ (i' > Len(Cases) => TLCSet(1, TRUE))
         /\ UNCHANGED vars

Ok == i <= Len(Cases) =>
        LET c == Cases[i]
            f == Fails(c)
            h == Hit(c)
            u == Unknown(c)
            s == Spurious(c)
            q == Silent(c) IN
          /\ f = {} \/ PrintT(<<"BAD", ToJson([i |-> i, fails |-> f,
                                               attr |-> Attribution(f, c.anntrail, Pairs(c.errs))])>>)
          /\ (h = {} /\ u = {} /\ s = {} /\ q = {})
             \/ PrintT(<<"COVER", ToJson([i |-> i, fam |-> c.plan.fam, hit |-> h, unknown |-> u,
                                         spurious |-> Cardinality(s), silent |-> q])>>)

Done == TLCGet(1)
=============================================================================

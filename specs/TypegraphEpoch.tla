--------------------------- MODULE TypegraphEpoch ---------------------------
(* Cache epochs of the typegraph (property C08).                                              *)
(*                                                                                            *)
(* An *epoch* is a stretch of a history in which no CFG node and no CFG edge is created:      *)
(* only the non-topological mutators (NewVariable, AddBinding, AddOrigin, SetCondition and    *)
(* the Paste operations) and queries happen.  Everything the implementation may legitimately *)
(* key on the CFG's topology alone stays valid for the whole epoch - and everything that      *)
(* also depends on bindings, origins or *conditions* must not.  The histories of Typegraph's  *)
(* Spec reach such stretches only on graphs of <= 2 nodes (exhaustive families) or by luck    *)
(* (simulation); a backward path with an interior node needs >= 3 nodes in a row.             *)
(*                                                                                            *)
(* This module starts the same state machine (same variables, same actions) from a populated  *)
(* CFG *skeleton* (chains, diamonds, ... of 3-5 nodes; the head is the only source, the       *)
(* highest node the only sink), and then runs one epoch:                                      *)
(*     build ; sweep ; (mutator | sweep)* ; sweep                                             *)
(* where a sweep asks every (node, small goal set) query - so every backward path of the      *)
(* skeleton has been looked up before the mutators act, and is looked up again after.         *)
(* hist starts as the canonical API history that builds the populated skeleton, so an         *)
(* exported history is self-contained: the driver replays it on a long-lived Program, and     *)
(* TraceC08 re-derives every state with Typegraph's own actions from the empty program.       *)
EXTENDS Typegraph

CONSTANTS
  Skeletons,     \* set of skeleton names (see Skel)
  Placement,     \* where the three initial bindings originate: "head0" | "head" | "any"
  EpochMuts,     \* set of mutator kinds allowed inside the epoch
  MaxMut,        \* number of mutators in the epoch
  CondInterior,  \* BOOLEAN: SetCondition only None -> binding and only on interior nodes
  NeedCond,      \* BOOLEAN: only epochs that contain a SetCondition are completed
  MidSweeps,     \* BOOLEAN: sweeps are allowed between two mutators
  WarmSize,      \* max goal-set size of the first sweep
  SweepSize,     \* max goal-set size of later sweeps
  SweepOrders    \* subset of {"up", "down"}: node order of a sweep

-----------------------------------------------------------------------------
(* Skeletons: topologically numbered DAGs, node 1 the only source, node nn the only sink *)

Chain(n) == [nn |-> n, edges |-> {<<j, j + 1>> : j \in 1 .. (n - 1)}]

Skel(s) ==
  CASE s = "chain3" -> Chain(3)
    [] s = "chain4" -> Chain(4)
    [] s = "chain5" -> Chain(5)
    [] s = "short3" -> [nn |-> 3, edges |-> {<<1, 2>>, <<2, 3>>, <<1, 3>>}]
    [] s = "diamond4" -> [nn |-> 4, edges |-> {<<1, 2>>, <<1, 3>>, <<2, 4>>, <<3, 4>>}]
    [] s = "stemdiamond5" ->
         [nn |-> 5, edges |-> {<<1, 2>>, <<2, 3>>, <<2, 4>>, <<3, 5>>, <<4, 5>>}]
    [] s = "diamondtail5" ->
         [nn |-> 5, edges |-> {<<1, 2>>, <<1, 3>>, <<2, 4>>, <<3, 4>>, <<4, 5>>}]
    [] s = "twopaths5" ->
         [nn |-> 5, edges |-> {<<1, 2>>, <<2, 3>>, <<3, 5>>, <<1, 4>>, <<4, 5>>}]

AllSkeletons == {"chain3", "chain4", "chain5", "short3", "diamond4", "stemdiamond5",
                 "diamondtail5", "twopaths5"}

(* interior nodes: those with a predecessor and a successor *)
InteriorOf(E) == {e[2] : e \in E} \cap {e[1] : e \in E}
Interior == InteriorOf(edges)

(* The population: variable 1 = {b1, b2}, variable 2 = {b3}; binding k originates at pl[k] *)
PopVar == <<1, 1, 2>>
PopData == <<1, 2, 1>>
Places(n) ==
  CASE Placement = "head0" -> {<<1, 1, 1>>}
    [] Placement = "head" -> {<<1, 1, p>> : p \in 1 .. n}
    [] Placement = "any" -> (1 .. n) \X (1 .. n) \X (1 .. n)

MinEdge(E) == CHOOSE e \in E : \A f \in E : e[1] < f[1] \/ (e[1] = f[1] /\ e[2] <= f[2])
RECURSIVE EdgeOps(_)
EdgeOps(E) ==
  IF E = {} THEN <<>>
  ELSE LET e == MinEdge(E) IN
       <<[op |-> "ConnectTo", a |-> e[1], b |-> e[2]]>> \o EdgeOps(E \ {e})

(* the canonical API history that builds skeleton sk populated by placement pl *)
BuildHist(sk, pl) ==
  [j \in 1 .. 2 |-> [op |-> "NewVariable"]]
  \o [j \in 1 .. sk.nn |-> [op |-> "NewCFGNode", c |-> 0]]
  \o EdgeOps(sk.edges)
  \o [k \in 1 .. 3 |-> [op |-> "AddBinding", v |-> PopVar[k], d |-> PopData[k],
                        n |-> pl[k], ss |-> {}]]

InitE ==
  \E s \in Skeletons : \E pl \in Places(Skel(s).nn) :
    LET sk == Skel(s) IN
    /\ nn = sk.nn /\ edges = sk.edges /\ cond = [j \in 1 .. sk.nn |-> 0]
    /\ bvar = PopVar /\ bdata = PopData /\ nv = 2
    /\ origins = {[b |-> k, n |-> pl[k], ss |-> {}] : k \in 1 .. 3}
    /\ hist = BuildHist(sk, pl)

-----------------------------------------------------------------------------
(* The epoch *)

L0 == 2 + nn + Cardinality(edges) + 3            \* length of the build prefix
NMut == Cardinality({k \in (L0 + 1) .. Len(hist) : hist[k].op # "Query"})
NCond == Cardinality({k \in (L0 + 1) .. Len(hist) : hist[k].op = "SetCondition"})
Warmed == Len(hist) > L0
LastIsQuery == Warmed /\ hist[Len(hist)].op = "Query"
Finished == NMut = MaxMut /\ LastIsQuery

(* goal sets of a sweep: singletons ascending, then pairs in lexicographic order *)
NB == Len(bvar)
RECURSIVE PairSeq(_)
PairSeq(a) == IF a >= NB THEN <<>> ELSE [j \in 1 .. (NB - a) |-> {a, a + j}] \o PairSeq(a + 1)
GoalSeq(size) == [b \in 1 .. NB |-> {b}] \o (IF size >= 2 THEN PairSeq(1) ELSE <<>>)
QueriesAt(n, size) ==
  LET gs == GoalSeq(size) IN [j \in 1 .. Len(gs) |-> [op |-> "Query", n |-> n, G |-> gs[j]]]
RECURSIVE SweepUp(_, _), SweepDown(_, _)
SweepUp(n, size) == IF n > nn THEN <<>> ELSE QueriesAt(n, size) \o SweepUp(n + 1, size)
SweepDown(n, size) == IF n < 1 THEN <<>> ELSE QueriesAt(n, size) \o SweepDown(n - 1, size)

(* A sweep is a run of Query steps (each leaves the graph unchanged), taken as one step *)
Sweep ==
  /\ ~LastIsQuery
  /\ MidSweeps \/ ~Warmed \/ NMut = MaxMut
  /\ \E ord \in SweepOrders :
       LET size == IF Warmed THEN SweepSize ELSE WarmSize IN
       hist' = hist \o (IF ord = "up" THEN SweepUp(1, size) ELSE SweepDown(nn, size))
  /\ UNCHANGED gvars

CondNodes == IF CondInterior THEN {n \in Interior : cond[n] = 0} ELSE Nodes
CondVals == IF CondInterior THEN Bind ELSE {0} \cup Bind

(* the non-topological mutators, with Typegraph's own actions *)
EpochMutator ==
  \/ "SetCondition" \in EpochMuts /\ \E n \in CondNodes, c \in CondVals : SetCondition(n, c)
  \/ /\ NeedCond => (NCond > 0 \/ NMut < MaxMut - 1)   \* keep a slot for the SetCondition
     /\ \/ "NewVariable" \in EpochMuts /\ NewVariable
        \/ "AddBinding" \in EpochMuts /\
             \E v \in 1 .. nv, d \in 1 .. MaxData, n \in Nodes \cup {0}, ss \in SourceSets :
               (n = 0 => ss = {}) /\ AddBinding(v, d, n, ss)
        \/ "AddOrigin" \in EpochMuts /\
             \E b \in Bind, n \in Nodes, ss \in SourceSets : AddOrigin(b, n, ss)
        \/ "PasteBinding" \in EpochMuts /\
             \E v \in 1 .. nv, b \in Bind, n \in Nodes \cup {0},
                ss \in {s \in SourceSets : Cardinality(s) <= 1} :
                  bvar[b] # v /\ PasteBinding(v, b, n, ss)
        \/ "AssignToNewVariable" \in EpochMuts /\
             \E b \in Bind, n \in Nodes \cup {0} : AssignToNewVariable(b, n)
        \/ "PasteBindingWithNewData" \in EpochMuts /\
             \E v \in 1 .. nv, b \in Bind, d \in 1 .. MaxData :
               bvar[b] # v /\ PasteBindingWithNewData(v, b, d)

NextE ==
  /\ ~Finished
  /\ \/ Sweep
     \/ Warmed /\ NMut < MaxMut /\ EpochMutator

SpecE == InitE /\ [][NextE]_vars

-----------------------------------------------------------------------------
(* Invariants of the family: the topology never changes inside an epoch, and hist is well     *)
(* formed (build prefix, then the epoch); complete epochs are exported.                       *)
EpochOK ==
  /\ TypeOK
  /\ \E s \in Skeletons : nn = Skel(s).nn /\ edges = Skel(s).edges
  /\ Len(hist) >= L0
  /\ \A k \in 1 .. L0 : hist[k].op \in {"NewVariable", "NewCFGNode", "ConnectTo", "AddBinding"}
  /\ \A k \in (L0 + 1) .. Len(hist) : hist[k].op \notin {"NewCFGNode", "ConnectNew", "ConnectTo"}
  /\ NMut <= MaxMut

ExportEpoch == Finished => PrintT(<<"CASE", ToJson([h |-> hist])>>)
=============================================================================

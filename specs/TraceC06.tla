------------------------------ MODULE TraceC06 ------------------------------
(* Code -> spec for C06: each case is one upstream program with its derived reader module,       *)
(*   [slots |-> <<[n, ta, tb |-> [pythonpath |-> t, imports_map |-> t, pickled |-> t]]>>,          *)
(*    errs |-> [cfg |-> <<error names of B's analysis>>]]                                         *)
EXTENDS StubImport, Json, IOUtils, TLCExt

Cases == JsonDeserialize(IOEnv.TRACE_FILE)
VARIABLE i
TInit == i = 1 /\ TLCSet(1, FALSE)
TNext == /\ i <= Len(Cases) /\ i' = i + 1 /\ (i' > Len(Cases) => TLCSet(1, TRUE))
Ok == i <= Len(Cases) =>
        LET f == CaseFails(Cases[i]) IN
          f = {} \/ PrintT(<<"BAD", ToJson([i |-> i, fails |-> f])>>)
Done == TLCGet(1)
=============================================================================

------------------------------ MODULE TraceC06 ------------------------------
(* Code -> spec for C06.  A case with fam = "prog" is one upstream program with its derived       *)
(* reader module,                                                                                *)
(*   [slots |-> <<[n, ta, tb |-> [pythonpath |-> t, imports_map |-> t, pickled |-> t]]>>,          *)
(*    errs |-> [cfg |-> <<error names of B's analysis>>]]                                         *)
(* judged by CaseFails; a case with fam = "dag" | "gen" | "nest" is one WORLD of upstream modules           *)
(*   [w |-> the world as StubWorld.tla exported it, reads |-> the reads it derived,                *)
(*    decls |-> the declarations the real analyses of the upstream modules inferred,              *)
(*    seen |-> [cfg |-> <<B's type of read j>>], errs]                                             *)
(* judged by WorldFails (StubImport.tla, section WORLDS).  For every world a STAT line reports     *)
(* how many of its reads the recorded upstream declarations give a definite type (vacuity guards). *)
EXTENDS StubImport, Json, IOUtils, TLCExt

Cases == JsonDeserialize(IOEnv.TRACE_FILE)
VARIABLE i
TInit == i = 1 /\ TLCSet(1, FALSE)
TNext == /\ i <= Len(Cases) /\ i' = i + 1 /\ (i' > Len(Cases) => TLCSet(1, TRUE))
IsWorld(c) == c.fam \in {"dag", "gen", "nest"}
(* fam = "uperr": an upstream module of a world (itself a reader of the earlier modules' stubs)   *)
(* was analysed with errors, errs |-> [module |-> <<error names>>]                                *)
Fails(c) == IF IsWorld(c) THEN WorldFails(c) ELSE IF c.fam = "uperr" THEN ErrFails(c) ELSE CaseFails(c)
Exp(c) == IF IsWorld(c) THEN [j \in DOMAIN c.reads |-> PathType(c.decls, c.reads[j])] ELSE <<>>
Judged(c) == {j \in DOMAIN c.reads : PathType(c.decls, c.reads[j])[1] \notin {"unknown", "any"}}
(* (vacuity guard of the family of nested classes: judged reads that go through a nested class)    *)
Nested(c) == {j \in Judged(c) : ThroughNested(c.decls, c.reads[j])}
Ok == i <= Len(Cases) =>
        LET c == Cases[i]
            f == Fails(c) IN
          /\ (~IsWorld(c) \/ PrintT(<<"STAT", ToJson([i |-> i, judged |-> Cardinality(Judged(c)),
                                                   nested |-> Cardinality(Nested(c))])>>))
          /\ (f = {} \/ PrintT(<<"BAD", ToJson([i |-> i, fails |-> f, exp |-> Exp(c)])>>))
Done == TLCGet(1)
=============================================================================

#!/bin/sh
# setup_cmd: build the typegraph extension from /repo's working tree (out of tree), parse every spec.
cd "$(dirname "$0")" || exit 2
mkdir -p build evidence replays
/venv/bin/python harness/boot.py || exit 2
rc=0
for f in specs/*.tla; do
  m=$(basename "$f" .tla)
  if ! (cd specs && java -cp /opt/veriftools/tla/tla2tools.jar:/opt/veriftools/tla/CommunityModules-deps.jar tla2sany.SANY "$m.tla" >../build/sany.$m.log 2>&1); then
    echo "SANY failed for $m"; tail -5 build/sany.$m.log; rc=2
  fi
done
if [ $rc = 0 ]; then
  PYTHONWARNINGS="ignore::SyntaxWarning" /venv/bin/python harness/selftest.py > build/selftest.log 2>&1 || { echo "selftest failed"; tail -5 build/selftest.log; rc=2; }
fi
[ $rc = 0 ] && echo "setup ok"
exit $rc
